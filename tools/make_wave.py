#!/venv/bin/python
"""usage: tools/make_wave.py <N> [ids...]
Prepares a wave of seeded-change trials: for every property a scratch worktree /tmp/wt<N>/<id> of /repo HEAD and a
prompt file /tmp/wt<N>/<id>.prompt.txt holding ONLY the property text, the task template and one-line summaries of the
changes already kept for that property (so that the new one differs in kind) -- nothing from /verif's checks.
Each prompt is then given to a fresh sub-agent; afterwards: tools/try_seed.sh /tmp/wt<N>/<id>/_out "<checks>",
tools/keep_seed.py ..., and `git -C /repo worktree remove --force /tmp/wt<N>/<id>`."""
import glob
import json
import os
import subprocess
import sys

ROOT = os.path.dirname(os.path.dirname(os.path.abspath(__file__)))
n = sys.argv[1]
ids = sys.argv[2:]
props = [json.loads(l) for l in open(os.path.join(ROOT, "properties.jsonl"))]
tmpl = open(os.path.join(ROOT, "tools", "seed_prompt_template.txt")).read()
base = f"/tmp/wt{n}"
os.makedirs(base, exist_ok=True)
for p in props:
    pid = p["id"]
    if ids and pid not in ids:
        continue
    wd = f"{base}/{pid}"
    if not os.path.isdir(wd):
        subprocess.check_call(["git", "-C", "/repo", "worktree", "add", "-q", "--detach", wd, "HEAD"])
    text = f"Title: {p['title']}\n\nStatement: {p['statement']}\n\nQuantified over: {p['quantifier']['text']}\n"
    prevs = []
    for d in sorted(glob.glob(os.path.join(ROOT, "seeded", pid + "-*", "meta.json"))):
        m = json.load(open(d))
        prevs.append("  - " + m.get("summary", "")[:400] + "\n    (triggered by: " + m.get("needs", "")[:300] + ")")
    extra = ""
    if prevs:
        extra = ("\n\nNOTE: other developers already produced the following breaking changes for this property; yours must be "
                 "DIFFERENT in kind from all of them: another source file or function, another mechanism and another triggering "
                 "input (do not touch the same lines):\n" + "\n".join(prevs) +
                 "\nFirst list for yourself the distinct behaviours this property covers (every clause of the statement, every kind "
                 "of input in the 'quantified over' text), tick the ones the changes above already hit, and break one that none of "
                 "them touched. Prefer a bug that needs a combination: two constructs in the same file, a construct at a particular "
                 "position (first/last in the file, right after another kind of statement, at a given nesting depth), a construct the "
                 "project's own test samples use but a textbook example would not (function pointers, attributes, bit-fields, nested "
                 "#if, casts, compound literals, arrays of arrays), or a value exactly at a boundary.\n")
    open(f"{base}/{pid}.prop.txt", "w").write(text)
    open(f"{base}/{pid}.prompt.txt", "w").write(tmpl.replace("PROPTEXT", text + extra).replace("WORKDIR", wd).replace("PROPID", pid))
    print(pid, wd)
