#!/venv/bin/python
"""Prints the detection matrix of DESIGN §8 from /verif/seeded/*/meta.json."""
import glob, json, os
rows = []
for d in sorted(glob.glob("/verif/seeded/*")):
    m = json.load(open(os.path.join(d, "meta.json")))
    rows.append((os.path.basename(d), m.get("property", "?"), m.get("summary", "")[:150].replace("|", "/"),
                 m.get("needs", "")[:110].replace("|", "/"), ",".join(m.get("detected_by_quick", [])) or "—", m.get("note", "")[:160].replace("|", "/")))
print("| seeded change | property | what it does | needs | reported by (quick) | note |")
print("|---|---|---|---|---|---|")
for r in rows:
    print("| " + " | ".join(r) + " |")
