#!/bin/bash
# usage: tools/try_seed.sh <dir with patch.diff demo.py> "<check ids>"  [tier]
# Confirms a seeded change in a scratch worktree (tests pass, demo fails with / passes without the patch),
# then runs the given checks against that worktree (VERIF_REPO) and prints which ones report a VIOLATION.
set -u
D=$(realpath "$1"); CHECKS="$2"; TIER="${3:-quick}"
W=$(mktemp -d /tmp/mutwt.XXXXXX); rmdir "$W"
git -C /repo worktree add -q --detach "$W" HEAD || exit 2
trap 'git -C /repo worktree remove --force "$W" >/dev/null 2>&1' EXIT
cd "$W"
echo "== demo without patch: $(NORMINETTE_SRC=$W PYTHONPATH=$W timeout 300 /venv/bin/python $D/demo.py >/dev/null 2>&1; echo $?) (want 0)"
git apply "$D/patch.diff" || { echo "PATCH DOES NOT APPLY"; exit 2; }
echo "== tests with patch: $(PYTHONPATH=$W /venv/bin/python -m pytest -q -p no:cacheprovider 2>&1 | tail -1)"
echo "== demo with patch: $(NORMINETTE_SRC=$W PYTHONPATH=$W timeout 300 /venv/bin/python $D/demo.py >/dev/null 2>&1; echo $?) (want 1)"
cd /verif
for c in $CHECKS; do
  out=$(VERIF_REPO=$W timeout 1500 /venv/bin/python -m mc check $c --tier $TIER 2>&1)
  rc=$?
  nv=$(echo "$out" | grep -c "^VIOLATION")
  echo "== $c exit=$rc violations=$nv :: $(echo "$out" | grep -m1 -A2 '^VIOLATION' | tr '\n' ' ' | cut -c1-260)"
  echo "$out" | grep "HARNESS-ERROR" | head -2
done
git -C /verif checkout -q -- evidence 2>/dev/null
