#!/venv/bin/python
import json
d = json.load(open("/verif/known_findings.json"))
rows = ["| property | signature | example | what fails |", "|---|---|---|---|"]
for e in d["findings"]:
    if e.get("status") == "open":
        rows.append("| %s | `%s` | `%s` | %s |" % (e["property"], e["signature"].replace("|", "\\|"), str(e.get("example", ""))[:60].replace("|", "\\|").replace("\n", "\\n"),
                                              e.get("description", "")[:200].replace("|", "/")))
p = "/verif/DESIGN.md"
s = open(p).read()
a = s.index("<!-- FINDINGS-BEGIN -->") + len("<!-- FINDINGS-BEGIN -->")
b = s.index("<!-- FINDINGS-END -->")
open(p, "w").write(s[:a] + "\n" + "\n".join(rows) + "\n" + s[b:])
print("open findings:", len(rows) - 2)
