#!/venv/bin/python
"""tools/keep_seed.py <src dir> <name> <detected_by (comma list or 'none')> [note]
Stores a confirmed seeded change under /verif/seeded/<name>/ (patch.diff, demo.py, meta.json)."""
import json, os, shutil, sys
src, name, det = sys.argv[1:4]
note = sys.argv[4] if len(sys.argv) > 4 else ""
dst = os.path.join("/verif/seeded", name)
os.makedirs(dst, exist_ok=True)
for f in ("patch.diff", "demo.py"):
    shutil.copy(os.path.join(src, f), os.path.join(dst, f))
meta = {}
try:
    meta = json.load(open(os.path.join(src, "meta.json")))
except Exception:
    pass
meta["confirmed"] = ("applied in a scratch worktree of /repo HEAD: the 514 tests pass with the patch; demo.py exits 1 with "
                     "the patch and 0 without (tools/try_seed.sh)")
meta["detected_by_quick"] = [] if det == "none" else det.split(",")
if note:
    meta["note"] = note
json.dump(meta, open(os.path.join(dst, "meta.json"), "w"), indent=1)
print("kept", dst, meta.get("detected_by_quick"))
