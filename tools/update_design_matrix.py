#!/venv/bin/python
import subprocess
m = subprocess.run(["/verif/tools/seed_matrix.py"], capture_output=True, text=True).stdout
p = "/verif/DESIGN.md"
s = open(p).read()
a = s.index("<!-- MATRIX-BEGIN -->") + len("<!-- MATRIX-BEGIN -->")
b = s.index("<!-- MATRIX-END -->")
open(p, "w").write(s[:a] + "\n" + m + s[b:])
print("matrix rows:", m.count("\n") - 2)
