#!/bin/bash
# usage: tools/regress_seeds.sh [seed dirs...]   (default: all of /verif/seeded/*)
# Re-runs, for every kept seeded change, the quick checks recorded in its meta.json against a scratch worktree with the
# patch applied, and prints DETECTED / MISSED per (seed, check).  Run with few other jobs: 4 seeds in parallel.
cd /verif
DIRS=${@:-/verif/seeded/*}
run_one() {
  d=$(realpath $1)
  name=$(basename $d)
  checks=$(/venv/bin/python -c "import json,sys;print(' '.join(json.load(open('$d/meta.json')).get('detected_by_quick',[])))")
  W=$(mktemp -d /tmp/regwt.XXXXXX); rmdir $W
  git -C /repo worktree add -q --detach $W HEAD || { echo "$name WORKTREE-FAIL"; return; }
  if ! git -C $W apply $d/patch.diff 2>/dev/null; then echo "$name PATCH-DOES-NOT-APPLY"; git -C /repo worktree remove --force $W; return; fi
  for c in $checks; do
    out=$(VERIF_REPO=$W VERIF_PROCS=4 VERIF_EVIDENCE_DIR=$W/_ev timeout 3000 /venv/bin/python -m mc check $c --tier quick 2>&1)
    rc=$?
    if echo "$out" | grep -q "^VIOLATION"; then echo "$name $c DETECTED"; else echo "$name $c MISSED(exit=$rc)"; fi
  done
  git -C /repo worktree remove --force $W >/dev/null 2>&1
}
export -f run_one
printf "%s\n" $DIRS | xargs -P 4 -I{} bash -c 'run_one {}'
