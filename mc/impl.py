"""Adapter to the code under test (DESIGN §3, impl.py).

Everything here is *test-side*: the norminette sources are imported from
$VERIF_REPO (default /repo, i.e. the current working tree) and observed by
wrapping public methods.  No source hook is needed.
"""
from __future__ import annotations

import contextlib
import io
import os
import sys
import traceback

REPO = os.environ.get("VERIF_REPO", "/repo")
if sys.path[0] != REPO:
    sys.path.insert(0, REPO)
os.environ.setdefault("NORMINETTE_VERIF", "1")

_IMPORT_ERROR = None
try:
    import norminette  # noqa: E402
    from norminette.file import File  # noqa: E402
    from norminette.lexer import Lexer  # noqa: E402
    from norminette.context import Context  # noqa: E402
    from norminette.registry import Registry  # noqa: E402
    from norminette.exceptions import CParsingError  # noqa: E402
    from norminette import errors as nerrors  # noqa: E402
    from norminette.norm_error import errors as ERROR_CATALOGUE  # noqa: E402
except BaseException as e:  # a changed tree that does not import is a harness error (exit 2)
    _IMPORT_ERROR = "".join(traceback.format_exception_only(type(e), e)).strip()


def import_ok():
    if _IMPORT_ERROR:
        return False, _IMPORT_ERROR
    src = os.path.realpath(os.path.dirname(norminette.__file__))
    want = os.path.realpath(os.path.join(REPO, "norminette"))
    if src != want:
        return False, f"norminette imported from {src}, expected {want}"
    return True, src


RECURSION_LIMIT = 1000


class FuelExhausted(BaseException):
    """Deterministic non-termination signal (DESIGN §2.2, waiting made visible)."""


class _Fuel:
    left = None  # None = unlimited


_fuel = _Fuel()
_fuel_installed = False


def install_fuel():
    """Wrap Context.peek_token and Lexer.raw_peek with a deterministic step counter."""
    global _fuel_installed
    if _fuel_installed:
        return
    _fuel_installed = True
    orig_peek = Context.peek_token
    orig_raw = Lexer.raw_peek

    def peek_token(self, pos):
        f = _fuel.left
        if f is not None:
            if f <= 0:
                raise FuelExhausted()
            _fuel.left = f - 1
        return orig_peek(self, pos)

    def raw_peek(self, *, offset=0, collect=1):
        f = _fuel.left
        if f is not None:
            if f <= 0:
                raise FuelExhausted()
            _fuel.left = f - 1
        return orig_raw(self, offset=offset, collect=collect)

    Context.peek_token = peek_token
    Lexer.raw_peek = raw_peek


# --------------------------------------------------------------------------
# pop / primary tracing (C07) -- installed once, active only while _trace is a list
_trace = None
_trace_installed = False


def install_trace():
    global _trace_installed
    if _trace_installed:
        return
    _trace_installed = True
    orig_pop = Context.pop_tokens
    orig_run_rules = Registry.run_rules

    def pop_tokens(self, stop):
        t = _trace
        if t is not None:
            toks = self.tokens
            n = len(toks)
            first = toks[0] if n else None
            last = toks[stop - 1] if 0 < stop <= n else None
            t.append(
                (
                    stop,
                    n,
                    _last_primary[0],
                    (first.pos if first is not None else None),
                    (last.type if last is not None else None),
                    _scope_sig(self.scope),
                )
            )
            _last_primary[0] = None
            if _snap_cb[0] is not None:
                _snap_cb[0](self, first)
        return orig_pop(self, stop)

    def run_rules(self, context, rule):
        ret, read = orig_run_rules(self, context, rule)
        if _trace is not None and ret and getattr(rule, "priority", None) is not None:
            _last_primary[0] = rule.__name__
        return ret, read

    Context.pop_tokens = pop_tokens
    Registry.run_rules = run_rules


_last_primary = [None]
_snap_cb = [None]


def _scope_sig(scope):
    out = []
    while scope is not None:
        out.append(type(scope).__name__)
        scope = scope.parent
    return tuple(out)


_registry = None


def registry():
    global _registry
    if _registry is None:
        _registry = Registry()
    return _registry


def fresh_registry():
    global _registry
    _registry = Registry()
    return _registry


def diag_tuple(err):
    h = err.highlights[0] if err.highlights else None
    return (err.level, err.name, h.lineno if h else None, h.column if h else None)


class Result:
    __slots__ = (
        "name", "diags", "status", "exc", "stdout", "trace", "tokens", "fuel_used",
        "errors_obj", "ntokens", "snaps", "file",
    )

    def errors_only(self):
        return [d for d in self.diags if d[0] == "Error"]

    def fatal(self):
        return self.exc is not None

    def brief(self):
        return {
            "status": self.status,
            "exc": self.exc,
            "diags": [list(d) for d in self.diags],
            "stdout": self.stdout,
        }


def _exc_info(e):
    tb = traceback.extract_tb(e.__traceback__)
    where = None
    for fr in reversed(tb):
        if "norminette" in fr.filename:
            where = f"{os.path.basename(fr.filename)}:{fr.name}"
            if os.sep + "rules" + os.sep not in fr.filename:
                # a shared helper (errors.py, context.py, registry.py): the call site is the innermost rule frame
                for fr2 in reversed(tb):
                    if os.sep + "rules" + os.sep in fr2.filename and "norminette" in fr2.filename:
                        where += f"<-{os.path.basename(fr2.filename)}:{fr2.name}"
                        break
            break
    msg = str(e)
    if len(msg) > 200:
        msg = msg[:200] + "..."
    return (type(e).__name__, msg, where)


def lex(text, name="t.c"):
    """Run only the tokenizer.  Returns (tokens|None, errors(list of Error), exc)."""
    sys.setrecursionlimit(RECURSION_LIMIT)
    f = File(name, text)
    try:
        toks = list(Lexer(f))
    except FuelExhausted:
        return None, f.errors, ("FuelExhausted", "", "lexer")
    except Exception as e:  # noqa: BLE001
        return None, f.errors, _exc_info(e)
    return toks, f.errors, None


def run_text(name, text, debug=0, R=None, trace=False, keep_tokens=False, fuel=None,
             pre_tokens=None, line0=None, snap=None, reg=None, pretext=None):
    """Run the real pipeline (Lexer -> Context -> Registry.run) on one file text.

    pre_tokens/line0: the fast path of DESIGN §2.3 (tokens of an already lexed
    prefix, and the line counter the body starts at).
    snap: optional callback(context, first_token_of_statement) called at every pop.
    """
    global _trace
    sys.setrecursionlimit(RECURSION_LIMIT)
    if pre_tokens is not None and pretext is not None and not fast_path_ok():
        # the shortcut of DESIGN §2.3 is not valid on this tree: lex the whole text
        text, pre_tokens, line0 = pretext + text, None, None
    r = Result()
    r.name = name
    r.exc = None
    r.trace = None
    r.tokens = None
    r.snaps = None
    f = File(name, text)
    r.file = f
    out = io.StringIO()
    if fuel is not None:
        install_fuel()
        _fuel.left = fuel
    if trace or snap is not None:
        install_trace()
        _trace = []
        _last_primary[0] = None
        _snap_cb[0] = snap
    ntok = 0
    try:
        with contextlib.redirect_stdout(out):
            lx = Lexer(f)
            if line0 is not None:
                lx._Lexer__line = line0
            toks = list(lx)
            if pre_tokens is not None:
                toks = list(pre_tokens) + toks
            ntok = len(toks)
            if keep_tokens:
                r.tokens = list(toks)
            ctx = Context(f, toks, debug, R)
            (reg or registry()).run(ctx)
    except FuelExhausted:
        r.exc = ("FuelExhausted", "", None)
    except RecursionError as e:
        r.exc = _exc_info(e)
    except Exception as e:  # noqa: BLE001
        r.exc = _exc_info(e)
    finally:
        if fuel is not None:
            r.fuel_used = fuel - (_fuel.left or 0)
            _fuel.left = None
        else:
            r.fuel_used = None
        if trace or snap is not None:
            r.trace = _trace
            _trace = None
            _snap_cb[0] = None
    r.ntokens = ntok
    r.stdout = out.getvalue()
    r.errors_obj = f.errors
    try:
        r.diags = [diag_tuple(e) for e in f.errors]
    except Exception as e:  # noqa: BLE001  (sorting itself could fail)
        r.diags = []
        if r.exc is None:
            r.exc = _exc_info(e)
    r.status = f.errors.status
    return r


_fast_ok = None


def fast_path_ok():
    """Self-test of the fast path, once per process: tokens of (prefix lexed alone) + (body lexed with the line counter
    pre-set) must equal the tokens of the whole text.  If the private counter moved or was renamed the fast path is off."""
    global _fast_ok
    if _fast_ok is None:
        pre = "/* a */\n\n#ifndef X_H\n"
        body = "int\tf(void)\n{\n\treturn (0); /* c\nd */\n}\n"
        try:
            f0 = File("x.c", pre + body)
            whole = [(t.type, t.pos, t.value) for t in Lexer(f0)]
            f1 = File("x.c", pre)
            a = [(t.type, t.pos, t.value) for t in Lexer(f1)]
            f2 = File("x.c", body)
            lx = Lexer(f2)
            lx._Lexer__line = pre.count("\n") + 1
            b = [(t.type, t.pos, t.value) for t in lx]
            _fast_ok = (a + b == whole)
        except Exception:  # noqa: BLE001
            _fast_ok = False
    return _fast_ok


def format_files(files, fmt="humanized", use_colors=False):
    cls = next(x for x in nerrors.formatters if x.name == fmt)
    return str(cls(files, use_colors=use_colors))


# --------------------------------------------------------------------------
# the command itself, in process

def run_cli(argv, cwd=None, fuel=None):
    """Call norminette.__main__.main() with patched argv/streams.

    Returns dict(code, stdout, stderr, exc).  `code` is the SystemExit code
    (None when main() returned or died with another exception)."""
    import norminette.__main__ as nm

    sys.setrecursionlimit(RECURSION_LIMIT)
    old_argv = sys.argv
    old_cwd = os.getcwd()
    out, err = io.StringIO(), io.StringIO()
    code, exc = None, None
    try:
        if cwd:
            os.chdir(cwd)
        sys.argv = ["norminette"] + list(argv)
        if fuel is not None:
            install_fuel()
            _fuel.left = fuel
        with contextlib.redirect_stdout(out), contextlib.redirect_stderr(err):
            try:
                nm.main()
            except SystemExit as e:
                code = e.code if e.code is not None else 0
            except BaseException as e:  # noqa: BLE001
                exc = _exc_info(e)
    finally:
        sys.argv = old_argv
        os.chdir(old_cwd)
        _fuel.left = None
    return {"code": code, "stdout": out.getvalue(), "stderr": err.getvalue(), "exc": exc}


def run_cli_subprocess(argv, cwd=None, timeout=120):
    import subprocess

    env = dict(os.environ)
    env["PYTHONPATH"] = REPO
    env["PYTHONHASHSEED"] = "0"
    env["PYTHONDONTWRITEBYTECODE"] = "1"
    p = subprocess.run(
        [sys.executable, "-m", "norminette"] + list(argv),
        cwd=cwd, env=env, capture_output=True, text=True, timeout=timeout,
    )
    return {"code": p.returncode, "stdout": p.stdout, "stderr": p.stderr,
            "exc": ("Traceback", "", None) if "Traceback (most recent call last)" in p.stderr else None}


# --------------------------------------------------------------------------
# which files reach Registry.run (C04/C15): test-side wrapper, active while _analysed is a list
_analysed = None
_analysed_installed = False


def install_analysed():
    global _analysed_installed
    if _analysed_installed:
        return
    _analysed_installed = True
    orig = Registry.run

    def run(self, context):
        if _analysed is not None:
            _analysed.append(context.file.path)
        return orig(self, context)

    Registry.run = run


def run_cli_observed(argv, cwd=None):
    """run_cli + the list of file paths handed to Registry.run, in order."""
    global _analysed
    install_analysed()
    _analysed = []
    try:
        o = run_cli(argv, cwd)
    finally:
        o_an, _analysed = _analysed, None
    o["analysed"] = o_an
    return o
