"""python -m mc check C07 [--tier quick|thorough] | replay <file> | selfcheck"""
from __future__ import annotations

import argparse
import importlib
import json
import os
import subprocess
import sys

os.environ.setdefault("PYTHONHASHSEED", "0")
sys.dont_write_bytecode = True

from . import evidence, findings  # noqa: E402
from .common import HarnessError  # noqa: E402

ROOT = os.path.dirname(os.path.dirname(os.path.abspath(__file__)))
MAX_REPORTED = 25


def _mod(pid):
    return importlib.import_module(f"mc.props.{pid.lower()}")


def cmd_check(pid, tier, seed):
    from . import impl, explore

    ok, info = impl.import_ok()
    if not ok:
        print(f"HARNESS-ERROR property={pid} cannot import the code under test: {info}")
        return 2
    mod = _mod(pid)
    try:
        res = mod.run(tier, seed)
    except HarnessError as e:
        print(f"HARNESS-ERROR property={pid} {e}")
        return 2
    except Exception as e:  # noqa: BLE001  (a crash of the machinery is never a verdict on the property)
        import traceback
        traceback.print_exc()
        print(f"HARNESS-ERROR property={pid} the check itself failed: {type(e).__name__}: {e}")
        return 2
    finally:
        explore.close_pool()
    known, k, n = findings.triage(pid, res.failures)
    known_seen = []
    for sig, fl in k.items():
        print(f"KNOWN-FINDING: property={pid} {sig} :: {fl[0].what} (x{len(fl)})")
        known_seen.append({"signature": sig, "count": len(fl)})
    for sig in known:
        if sig not in k and getattr(res, "covers_signature", lambda s: True)(sig):
            print(f"STALE-FINDING: property={pid} {sig} not re-observed in this tier")
    rc = 0
    reported = 0
    unreproduced = 0
    for sig, fl in n.items():
        if reported >= MAX_REPORTED:
            break
        f = fl[0]
        path = findings.write_replay(f)
        # determinism gate: the replay must fail again in a fresh process
        p = subprocess.run([sys.executable, "-m", "mc", "replay", path], cwd=ROOT,
                           capture_output=True, text=True)
        if p.returncode != 1:
            # the observation depends on what the worker process had processed before (or on time): it is not
            # reported as a violation of this property; alone it makes the run a harness error (exit 2)
            print(f"UNREPRODUCED property={pid} replay {path} did not reproduce in a fresh process "
                  f"(exit {p.returncode}): {p.stdout[-200:]} {p.stderr[-200:]}")
            unreproduced += 1
            continue
        print(f"VIOLATION property={pid} replay={path}")
        print(f"  signature: {sig}\n  what: {f.what} (x{len(fl)})")
        reported += 1
        rc = 1
    if unreproduced and rc == 0:
        print(f"HARNESS-ERROR property={pid} {unreproduced} failures did not reproduce from their replay files")
        rc = 2
    if len(n) > reported + unreproduced:
        print(f"  ... and {len(n) - reported - unreproduced} more distinct violation signatures")
    nviol = sum(len(v) for v in n.values())
    evidence.write(pid, tier, seed, res.stats, rule=res.rule, exhaustive=res.exhaustive,
                   bounds=res.bounds, alphabet=res.alphabet, assumptions=res.assumptions,
                   violations=nviol, known_seen=known_seen, distinct=res.distinct,
                   extra=res.extra)
    s = res.stats
    print(f"{pid} tier={tier} seed={seed} states={s.states} transitions={s.transitions} runs={s.runs} "
          f"distinct={res.distinct} known={len(k)} new={len(n)} wall={s.wall()}s "
          f"-> {'HELD' if rc == 0 else 'VIOLATED' if rc == 1 else 'HARNESS-ERROR'}")
    return rc


def cmd_replay(path):
    from . import impl

    ok, info = impl.import_ok()
    if not ok:
        print(f"HARNESS-ERROR cannot import: {info}")
        return 2
    with open(path) as f:
        doc = json.load(f)
    mod = _mod(doc["property"])
    fails = mod.replay(doc["payload"])
    if fails:
        for fl in fails[:5]:
            print(f"REPRODUCED property={doc['property']} {fl.signature} :: {fl.what}")
        return 1
    print(f"not reproduced: {path}")
    return 0


def cmd_selfcheck():
    from . import impl

    ok, info = impl.import_ok()
    print("import:", ok, info)
    if not ok:
        return 2
    r = impl.run_text("a.c", "int\tmain(void)\n{\n\treturn (0);\n}\n")
    print("smoke:", r.status, r.diags, r.exc)
    with open(os.path.join(ROOT, "MANIFEST.json")) as f:
        man = json.load(f)
    for c in man["checks"]:
        _mod(c["property_id"])
    print("checks importable:", len(man["checks"]))
    return 0


def main():
    ap = argparse.ArgumentParser(prog="mc")
    sub = ap.add_subparsers(dest="cmd", required=True)
    c = sub.add_parser("check")
    c.add_argument("pid")
    c.add_argument("--tier", default=os.environ.get("VERIF_TIER", "quick"), choices=["quick", "thorough"])
    r = sub.add_parser("replay")
    r.add_argument("path")
    sub.add_parser("selfcheck")
    a = ap.parse_args()
    seed = int(os.environ.get("VERIF_SEED", "0") or 0)
    if a.cmd == "check":
        sys.exit(cmd_check(a.pid.upper(), a.tier, seed))
    if a.cmd == "replay":
        sys.exit(cmd_replay(a.path))
    if a.cmd == "selfcheck":
        sys.exit(cmd_selfcheck())


if __name__ == "__main__":
    main()
