"""Canonical dump of the carried state of the implementation (DESIGN §2.1).

Generic by default: every attribute of Context, of the scope chain, of the preprocessor state and
of the pending sub-scope is serialised; a field is abstracted or dropped only by the tables below.
"""
from __future__ import annotations

# field -> reason it is dropped (see DESIGN §2.1 for the argument)
CTX_DROP = {
    "tokens": "consumed input",
    "tkn_scope": "rewritten before every statement",
    "errors": "output only; no rule reads it",
    "file": "constant per exploration",
    "fname_pos": "written by the matching primary before every read",
    "arg_pos": "reset in Context.update",
    "debug": "constant per exploration",
    "state": "constant while statements are processed",
}
SCOPE_DROP = {
    "parent": "walked explicitly",
    "fnames": "only fnames[-1] is read, in the statement that appended it",
    "vars_name": "emptied after every statement",
    "fname_pos": "written before every read",
    "tmp_scope": "never read",
}


def _atom(v):
    if isinstance(v, (int, str, bool, float)) or v is None:
        return v
    if isinstance(v, (list, tuple)):
        return tuple(_atom(x) for x in v)
    if isinstance(v, (set, frozenset)):
        return tuple(sorted(_atom(x) for x in v))
    if isinstance(v, dict):
        return tuple(sorted((str(k), _atom(x)) for k, x in v.items()))
    name = getattr(v, "name", None)
    if isinstance(name, str):
        return ("obj", type(v).__name__, name)
    return ("obj", type(v).__name__)


def scope_dump(scope, forget=()):
    out = []
    while scope is not None:
        d = []
        nm = type(scope).__name__
        for k, v in sorted(vars(scope).items()):
            if k in SCOPE_DROP or (nm + "." + k) in forget:
                continue
            if k == "lines":
                cap = 6 if type(scope).__name__ == "GlobalScope" else 28
                v = min(v, cap)
            elif k == "instructions":
                v = min(v, 1)
            elif k == "functions":
                v = min(v, 7)
            elif k == "vars":
                v = min(v, 7)
            d.append((k, _atom(v)))
        out.append((type(scope).__name__, tuple(d)))
        scope = scope.parent
    return tuple(out)


_TRIVIAL = ("IsComment", "IsEmptyLine", "IsPreprocessorStatement")


def history_dump(hist):
    """Exactly the look-backs of the rules (audited list in DESIGN §2.1):
    A last two entries; B last non-trivial entry and the number of trivial entries after it
    (IsBlockStart, CheckLineIndent); C the entry CheckFuncDeclaration stops at; D the first four
    non-empty entries (CheckBlockStart); E two 'anything but ...' flags (include / protection);
    F brace balance since the last function opening (CheckComment); G len==1 (CheckEmptyLine)."""
    names = [getattr(h, "name", None) or type(h).__name__ for h in hist]
    a = tuple(names[-2:])
    k = 0
    b = None
    for n in reversed(names):
        if n in _TRIVIAL:
            k += 1
            continue
        b = n
        break
    b = (b, min(k, 4))
    i = len(names) - 1
    while i >= 0 and names[i] in ("IsPreprocessorStatement", "IsComment", "IsFuncDeclaration"):
        i -= 1
    c = (i >= 0, i > 0, names[i] == "IsEmptyLine" if i >= 0 else None)
    d = tuple([n for n in names if n != "IsEmptyLine"][:4])
    e = (any(n not in _TRIVIAL for n in names), any(n not in ("IsComment", "IsEmptyLine") for n in names))
    f = None
    for j in range(len(names) - 2, -1, -1):
        if names[j] == "IsFuncDeclaration" and names[j + 1] == "IsBlockStart":
            f = sum(1 for n in names[j + 1:] if n == "IsBlockStart") - sum(1 for n in names[j + 1:] if n == "IsBlockEnd")
            f = min(f, 4)
            break
    g = min(len(names), 3)
    return (a, b, c, d, e, f, g)


PREPROC_DROP = {
    "total_ifs": "written, never read", "total_elifs": "written, never read", "total_elses": "written, never read",
    "total_ifdefs": "written, never read", "total_ifndefs": "written, never read", "includes": "never read",
}


def context_dump(ctx, forget=()):
    """forget: model-aware abstraction -- names of fields ('GlobalScope.func_alignment', 'func_alignment')
    that cannot influence any future the model can produce from the current model state (justified
    where it is passed, validated by the merge-validation pass)."""
    d = []
    guard = ctx.file.basename.upper().replace(".", "_")
    for k, v in sorted(vars(ctx).items()):
        if k in CTX_DROP:
            continue
        if k == "history":
            v = history_dump(v)
        elif k in forget:
            continue
        elif k == "scope":
            v = scope_dump(v, forget)
        elif k == "sub":
            v = scope_dump(v, forget) if v is not None else None
        elif k == "preproc":
            pd = []
            for pk, pv in sorted(vars(v).items()):
                if pk in PREPROC_DROP:
                    continue
                if pk == "macros":
                    # only has_macro_defined(<guard derived from the file name>) reads it
                    pv = any(m.name == guard for m in pv)
                pd.append((pk, _atom(pv)))
            v = tuple(pd)
        elif k == "header":
            v = None if ctx.header_parsed else len(v)
        else:
            v = _atom(v)
        d.append((k, v))
    return tuple(d)
