"""Carrier sets CS / CSv (DESIGN §4 'Carriers'): a covering set of conforming files computed from the
model alone (never from the tool), and one-violation variants of them."""
from __future__ import annotations

import functools

from . import progrun
from .model import norm, catalogue


@functools.lru_cache(maxsize=None)
def histories(ftype, tier):
    """Model-only BFS, deduplicated on (model state, kinds of the last two blocks)."""
    b = progrun.BOUNDS[tier]
    st0 = norm.initial(ftype, b)
    seen = {(norm.state_key(st0), ()): ()}
    frontier = [((), st0)]
    order = [()]
    bids = set()
    while frontier:
        nxt = []
        for ids, st in frontier:
            for blk, ns in norm.enabled(st, b):
                nid = ids + (blk.bid,)
                k = (norm.state_key(ns), tuple(x.split(":")[0] for x in nid[-2:]))
                if k not in seen:
                    seen[k] = nid
                    nxt.append((nid, ns))
                    order.append(nid)
                    bids.add(blk.bid)
                elif blk.bid not in bids:
                    # every block of the alphabet appears in at least one carrier
                    bids.add(blk.bid)
                    order.append(nid)
        frontier = nxt
    return tuple(order)


def conforming(tier, ftypes=(".c", ".h"), cap=None):
    """List of dicts(ftype, ids, fname, lines (body Lines incl. completion), text (whole file))."""
    out = []
    b = progrun.BOUNDS[tier]
    for ftype in ftypes:
        hs = histories(ftype, tier)
        if cap and len(hs) > cap:
            # the shallowest histories (every first block of the alphabet) are always kept, the rest is sampled evenly
            head = [h for h in hs if len(h) <= 1]
            rest = [h for h in hs if len(h) > 1]
            k = max(1, cap - len(head))
            step = len(rest) / k
            hs = head + [rest[int(i * step)] for i in range(k)]
        for ids in hs:
            fname = "test" + ftype
            rp = norm.replay(ftype, ids, b, fname, with_preamble=False)
            lines = rp.lines + norm.completion(rp.st)
            pre = norm.preamble(ftype, fname)
            out.append({"ftype": ftype, "ids": ids, "fname": fname, "lines": lines, "pre": pre,
                        "lo": (rp.block_first_line[-1] - 1) if ids else 0, "hi": len(rp.lines),
                        "text": norm.render(pre + lines)})
    return out


def violating(tier, per_op=3, ftypes=(".c", ".h")):
    """One-violation variants: for each operator, its first site on up to `per_op` carriers (first, middle, last)."""
    cs = conforming(tier, ftypes)
    out = []
    for vid, (code, fn, fts) in catalogue.OPS.items():
        hits = []
        for c in cs:
            if c["ftype"] not in fts:
                continue
            for new_lines, exp_idx, site in fn(c["lines"], 0, len(c["lines"])):
                hits.append((c, new_lines, exp_idx, site))
                break
        if not hits:
            continue
        pick = [hits[0], hits[len(hits) // 2], hits[-1]][:per_op] if len(hits) >= 3 else hits
        seen = set()
        for c, new_lines, exp_idx, site in pick:
            text = norm.render(c["pre"] + new_lines)
            if text in seen:
                continue
            seen.add(text)
            out.append({"ftype": c["ftype"], "ids": c["ids"], "fname": c["fname"], "vid": vid, "code": code, "site": site,
                        "lines": new_lines, "pre": c["pre"], "text": text})
    return out
