"""Small shared types."""
from __future__ import annotations


class HarnessError(Exception):
    """The harness itself is broken or vacuous (exit 2, never a VIOLATION)."""


class CheckResult:
    def __init__(self, stats, failures, *, rule, exhaustive, bounds, alphabet, assumptions,
                 distinct, extra=None):
        self.stats = stats
        self.failures = failures
        self.rule = rule
        self.exhaustive = exhaustive
        self.bounds = bounds
        self.alphabet = alphabet
        self.assumptions = assumptions
        self.distinct = distinct
        self.extra = extra or {}


BASE_ASSUMPTIONS = [
    "Python 3.12 of /venv and the in-process adapter mc/impl.py (test-side wrappers only)",
    "bounded exhaustive: nothing is claimed beyond the stated bounds (DESIGN §7)",
]


def seeded_rotation(seq, seed, salt=0):
    """Deterministic rotation of a pool by the seed (DESIGN §3 'tiers and seeds')."""
    seq = list(seq)
    if not seq:
        return seq
    k = (seed * 7 + salt * 13) % len(seq)
    return seq[k:] + seq[:k]
