"""Evidence files (/verif/evidence/<id>.json), schema /root/.vp/EVIDENCE.schema.json."""
from __future__ import annotations

import json
import os

ROOT = os.path.dirname(os.path.dirname(os.path.abspath(__file__)))


def write(prop, tier, seed, stats, *, rule, exhaustive, bounds, alphabet, assumptions,
          violations, known_seen, distinct=None, extra=None):
    cov = {
        "states": max(1, int(stats.states)),
        "transitions": max(1, int(stats.transitions)),
        "traces_validated_against_impl": int(stats.runs),
        "evaluations": int(stats.runs),
        "distinct_nontrivial": int(distinct if distinct is not None else len(stats.outcomes)),
        "rule": rule,
        "samples": stats.samples[:8] or ["(none)"],
        "exhaustive": bool(exhaustive),
        "bounds": bounds,
        "alphabet_sizes": alphabet,
        "depth_histogram": {str(k): v for k, v in sorted(stats.depth_hist.items())},
        "distinct_outcomes": len(stats.outcomes),
        "merges": stats.merges,
        "vacuity_counters": dict(sorted(stats.vacuity.items())),
        "caps_hit": stats.caps,
        "known_findings_seen": known_seen,
    }
    cov.update(stats.extra)
    if extra:
        cov.update(extra)
    doc = {
        "property_id": prop,
        "tier": tier,
        "seed": int(seed),
        "level": "model_checking",
        "coverage": cov,
        "assumptions": assumptions,
        "wall_s": stats.wall(),
        "violations": int(violations),
    }
    evdir = os.environ.get("VERIF_EVIDENCE_DIR") or os.path.join(ROOT, "evidence")
    os.makedirs(evdir, exist_ok=True)
    path = os.path.join(evdir, prop + ".json")
    tmp = path + ".tmp"
    with open(tmp, "w") as f:
        json.dump(doc, f, indent=1, sort_keys=True, ensure_ascii=True, default=str)
        f.write("\n")
    os.replace(tmp, path)
    return path
