"""Regenerates /verif/MANIFEST.json from the table below:  /venv/bin/python -m mc.manifest_gen"""
import json
import os

ROOT = os.path.dirname(os.path.dirname(os.path.abspath(__file__)))
PY = "/venv/bin/python"

# property id -> (design section, technique, level text, level note)
BUILT = {
    "C05": ("§4.5", "input-trie enumeration of the tokenizer plus run families; deviation-bounded exhaustive "
            "enumeration of token-prefixes and single-token edits (k = 0, 1, 2) of carrier files on the real pipeline "
            "under a deterministic fuel counter; the same prefix/edit enumeration over the sample inputs of /verif/corpus",
            "Every string of the bounded tries and run families must lex without exception; every carrier, every token "
            "prefix (with/without final NL) and every delete/insert/replace/swap over a 24-kind token alphabet must end in "
            "a verdict or CParsingError -- never another exception, never fuel exhaustion; representatives also through main().",
            "Fuel (steps of Context.peek_token / Lexer.raw_peek) stands for termination; a loop that calls neither would only "
            "be caught by the wall-clock limit of the harness."),
    "C17": ("§4.17", "differential exhaustive enumeration: every opaque-text site of the carrier/enriched files x every "
            "same-width replacement built from code-like lexemes (deviation bound 1, pairs in thorough); the sample inputs at token level",
            "Two runs of the real pipeline per case; the (level, code, line, col) diagnostics must be identical.",
            "Replacements never form the site's delimiter, a backslash, a newline or a trigraph; the 42 header and "
            "#include paths are excluded by the property."),
    "C18": ("§4.18", "differential exhaustive enumeration: every user identifier of every carrier file renamed alone to "
            "each member of its same-length/same-class pool, and all identifiers together under each letter map; the sample inputs at token level",
            "Two runs of the real pipeline per case; diagnostics must be identical in code, line and column.",
            "Identifier classes come from the model's piece tags; keywords and names the tool treats specially are never "
            "produced; the case pattern is part of the class."),
    "C19": ("§4.19", "differential exhaustive enumeration over insertion points: header prepended (L1), a comment line at "
            "every top-level point (L2), six conforming functions appended (L3) for every carrier file and every sample input (points from the pop trace)",
            "The diagnostics of the edited file must be exactly the shifted diagnostics of the original (L1 minus the one "
            "INVALID_HEADER).",
            "Top-level points come from the model's line kinds; points between two empty lines are excluded."),
    "C08": ("§4.8", "exhaustive check of every diagnostic of every carrier / diagnostic-dense file, and exhaustive "
            "enumeration of all pairs and triples of a small Error domain for the comparator laws",
            "Every file of the carrier sets: each diagnostic well-formed (catalogue code and text, level, position inside "
            "the file), ascending order, JSON output equal to the humanized output at formatter level and through "
            "main(); comparator irreflexive/asymmetric/transitive and consistent with printed positions on all pairs and "
            "triples of the domain.",
            "Pairs whose printed position lies inside another diagnostic's multi-highlight span cannot come from a file "
            "and are only counted."),
    "C12": ("§4.12", "deviation-bounded exhaustive enumeration: every respelling subset (k = 0,1,2,all) and every "
            "token-boundary splice of carrier files, every respelling subset and splice of all punctuator sequences "
            "up to length 3/4; single respellings and splices at every token of the sample inputs",
            "Token (type, value) sequences must be identical under every explored respelling/splice; for brace and bracket "
            "respellings the (level, code, line) diagnostics must be identical too.",
            "A respelled punctuator is separated from its neighbours by a blank (maximal munch across the boundary is C's "
            "behaviour); a splice after a // comment is excluded."),
    "C13": ("§4.13", "exhaustive enumeration of stdheader template instances x leading contexts, of every structural "
            "mutation H1-H11 (in process and through the command as file and as inline content), and of all leading-line sequences with <= 2 deviating line kinds (header state machine)",
            "Every template instance in every leading context must yield zero INVALID_HEADER, every single structural "
            "mutation exactly one; the two-flag header machine is driven through every 13-line leading sequence with at "
            "most 2 substituted kinds.",
            "Trusts mc/model/header42.py as the stdheader layout; logo/blank rows and the file-name row replaced by another "
            "comment are not judged (the property does not name them)."),
    "C14": ("§4.14", "exhaustive enumeration of header base names (bounded length over {a,9,_,.}) x conforming header "
            "bodies x guard mutations G1-G8 on the real pipeline",
            "For every name and body the correct guard must be accepted and each guard mutation must yield its "
            "HEADER_PROT_* diagnostic on the guard line concerned; the same texts under a .c name must get none.",
            "Trusts GUARD(name) = upper-case with dots replaced, as the property defines it."),
    "C16": ("§4.16", "exhaustive enumeration of the option lattice (156 vectors) x carrier files, edge files and sample inputs through the real "
            "main(), comparing a presentation-independent parse of the output",
            "Every combination of colours, format, -o, debug level and -R value is run on every file of the carrier sets "
            "that reaches a verdict (conforming, one-violation and #define-dense files); verdict and diagnostics must be "
            "identical, -R CheckDefine may only drop the #define-value diagnostics; inline --cfile/--hfile content must "
            "equal the on-disk file.",
            "Trusts the output parser of mc/props/c16.py; files that are fatal at debug 0 are outside the property."),
    "C15": ("§4.15", "exhaustive enumeration of bounded directory trees x argument lists (and .gitignore variants) "
            "through the real main(), against an os.walk-based reference model",
            "Every tree of the alphabet (names with spaces/dots, look-alike suffixes, directories named like sources, "
            "empty directories) with every argument list of length <= 2/3 over its paths, '.', a missing path and no "
            "argument; verdict-line multiset, rejection messages and exit status must equal the model's.",
            "Trusts the 15-line reference model and the gitignore semantics of the four patterns used; hidden files and "
            "symlinks are outside the alphabet."),
    "C06": ("§4.6", "explicit-state search over histories of processed files with deduplication on a generic snapshot "
            "of the process-level state, each history run in a child forked from a pristine image; exhaustive "
            "permutation family of the rules-directory listing in fresh interpreters",
            "BFS to closure over the global state (the sample inputs as additional one-file polluters), a victim corpus "
            "observed from every distinct state, plus all un-merged histories of length <= 2/3 over a 12-file pool "
            "(clean/erroneous/fatal/#if-failure/deep-recursion/...); every file's observation must equal its "
            "observation alone; listing orders (reverse, rotations, transpositions, shuffles) must not change the rule "
            "tables nor any diagnostic.",
            "Trusts fork() to reproduce the pristine interpreter state (cross-checked against fresh interpreters) and the "
            "generic walk of mc/props/c06.py global_state() to see all surviving state."),
    "C04": ("§4.4", "exhaustive history search over file-class sequences (length 0..4) x argument modes through the "
            "real main(), against a 6-line reference model of verdicts and exit status",
            "All class sequences (7 classes, each what it is by construction) as explicit paths, all multisets as a directory / as cwd and the empty selections "
            "are run through main() in process (short ones and failures also as a real subprocess); verdict lines must "
            "equal the model's for exactly the analysed files, in order; exit status 0 iff every selected file is OK.",
            "Trusts the reference model (the verdict class of each file by construction, cross-checked against its isolated "
            "run) and that in-process main() equals the command "
            "(cross-checked against a subprocess on every sequence of length <= 2)."),
    "C03": ("§4.3", "exhaustive enumeration of every (limit, context) chain n = L-3..L+6 on the real pipeline with an "
            "iff oracle computed by the reference model",
            "For each of the five limits every generated context (line kind x position x tab mix; body shape x "
            "function position; parameter/variable mixes) is explored across the threshold; the limit diagnostic must "
            "appear iff n > L, on the right line, and the at-limit file must be error-free.",
            "Trusts the independent column function of mc/model/lexref.py and the context generators of mc/props/c03.py."),
    "C02": ("§4.2", "explicit-state search of the C01 product graph; on every selected transition every catalogue "
            "operator is applied at every site of the last block (deviation bound 1) and run on the real pipeline",
            "All (state, block, operator, site) combinations within the bounds are executed; the operator's code must "
            "appear at Error level on the edited line with status Error; one site per operator also through main().",
            "Trusts mc/model/catalogue.py (each operator breaks the Norm sentence it names). Quick edits the BFS-tree "
            "transitions plus the first transition of every (block, scope) pair; thorough every (block, state) pair."),
    "C07": ("§4.7", "explicit-state search of the C01 product graph observing every Context.pop_tokens/primary match "
            "(test-side wrappers); exhaustive insertion of unrecognisable fragments at every model-state representative",
            "On every transition of the product graph the pops must tile the token list, start at column 1, end at "
            "NEWLINE, equal the model's statement count and scope stack; every fragment x every representative x "
            "{middle, last line with/without NL} must end in CParsingError when any token took the unrecognised path; "
            "a strict fragment (one that can neither start nor continue a statement) inserted after every representative and "
            "at every line boundary of the conforming carriers must not leave the file OK!; partition invariants on "
            "every line-prefix of the sample inputs.",
            "Trusts the statement counts/scope stack of mc/model/norm.py and the implementation's own notion of "
            "'unrecognised' (a one-token pop without primary match)."),
    "C01": ("§4.1", "explicit-state breadth-first search of the product (reference model of conforming files x canonical "
            "dump of the real Context), every transition executed on the real pipeline; nested exhaustive "
            "enumeration of expressions/signatures/declarations/constants",
            "All (carried state, next block) pairs reachable within the model bounds are executed on the real "
            "Lexer/Context/Registry and must yield no Error diagnostic, status OK, no stray output; accepting "
            "representatives are also run through main() (exit 0, `OK!`).",
            "Trusts the conforming-program generator mc/model/norm.py (DESIGN §4.1) and the abstraction table of "
            "mc/canon.py (merge-validated). Bounded: see evidence bounds; expressions with <= 1 (quick) / 2 "
            "(thorough) binary operators."),
    "C11": ("§4.11", "exhaustive enumeration of the C11 6.4.4 literal grammar (bounded digit strings) x contexts against the real tokenizer",
            "Every derivation of the literal grammar within the digit bounds, in every listed context, is lexed by the real Lexer: valid literals must be one clean token, members of malformed families must carry their diagnostic.",
            "Trusts mc/model/literals.py as a faithful subset of C11 6.4.4 plus the named extensions; sandwich: what lies between valid and malformed sets is not judged."),
    "C09": ("§4.9", "input-trie enumeration of the tokenizer (all strings up to a length bound over focused "
            "alphabets) against an independent column scanner",
            "Every string of the bounded tries is lexed by the real Lexer and every token position is compared "
            "with the position recomputed from the raw text; exhaustive within the stated alphabets/lengths.",
            "Trusts mc/model/lexref.py (tab stops every 4 columns; splices, digraphs, trigraphs). Nothing is "
            "claimed for strings longer than the bound or characters outside the alphabets."),
    "C10": ("§4.10", "input-trie enumeration of the tokenizer against an independent alignment walker "
            "(raw text vs. token texts, with backtracking)",
            "Every string of the bounded tries is lexed and the token texts must tile the raw text exactly under "
            "the three documented normalisations, every skipped character carrying one BAD_LEXEME; exhaustive "
            "within the stated alphabets/lengths.",
            "Trusts mc/model/lexref.py. Bounded: lengths <= 5 (quick) / 6-7 (thorough) over 10-14 symbol alphabets."),
}

TODO_REASON = "check not built yet (planned in DESIGN {sec}); listed here until its machinery is committed"

ALL = {f"C{n:02d}": f"§4.{n}" for n in range(1, 20)}


def main():
    checks = []
    for pid in sorted(BUILT):
        sec, tech, text, note = BUILT[pid]
        checks.append({
            "property_id": pid,
            "quick_cmd": f"{PY} -m mc check {pid} --tier quick",
            "thorough_cmd": f"{PY} -m mc check {pid} --tier thorough",
            "evidence_file": f"/verif/evidence/{pid}.json",
            "replay_cmd_template": f"{PY} -m mc replay {{path}}",
            "engine": "mc",
            "level_claimed": {"category": "model_checking", "text": text, "design_ref": f"DESIGN.md {sec}"},
            "level_note": note,
            "technique": tech,
        })
    na = [{"property_id": pid, "reason": TODO_REASON.format(sec=ALL[pid])}
          for pid in sorted(ALL) if pid not in BUILT]
    man = {
        "version": 1,
        "setup_cmd": f"{PY} -m mc selfcheck",
        "hooks": {
            "guard": "NORMINETTE_VERIF",
            "enable": "none needed: all observation points are reached by test-side wrapping of public methods "
                      "(mc/impl.py); the variable is set by the harness but read by no source file",
            "baseline_off_cmd": "cd /repo && /venv/bin/python -m pytest -ra -q -p no:cacheprovider --timeout=900 "
                                "--continue-on-collection-errors",
            "source_commits": [],
            "add_only": True,
        },
        "engines": [{
            "name": "mc", "path": "/verif/mc",
            "serves_properties": sorted(BUILT),
            "kind_free_text": "hand-written explicit-state / bounded-exhaustive explorer in Python driving the real "
                              "norminette code (16-way worker pool), reference models in mc/model",
        }],
        "checks": checks,
        "not_applicable": na,
        "notes": "All checks: exit 0 held (KNOWN-FINDING lines for entries of known_findings.json), exit 1 with "
                 "VIOLATION lines, exit 2 HARNESS-ERROR (never a VIOLATION). VERIF_SEED rotates seeded slices only.",
    }
    with open(os.path.join(ROOT, "MANIFEST.json"), "w") as f:
        json.dump(man, f, indent=1)
        f.write("\n")
    print("MANIFEST.json:", len(checks), "checks,", len(na), "not_applicable")


if __name__ == "__main__":
    main()
