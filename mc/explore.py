"""Exploration engine (DESIGN §3, explore.py): a pool of long-lived workers plus
the three exploration shapes -- BFS over histories with deduplication (S),
input-trie enumeration (T) and history/configuration search (H).

Everything is deterministic: tasks are generated in a fixed order, results come
back in task order (imap), deduplication happens in the parent.
"""
from __future__ import annotations

import itertools
import multiprocessing as mp
import os
import time

NPROC = int(os.environ.get("VERIF_PROCS", "0")) or min(16, os.cpu_count() or 1)

_pool = None


def _init_worker():
    os.environ["PYTHONHASHSEED"] = "0"
    import sys

    sys.dont_write_bytecode = True
    from . import impl  # noqa: F401  (imports the code under test once per worker)


def pool():
    global _pool
    if _pool is None:
        ctx = mp.get_context("fork")
        _pool = ctx.Pool(NPROC, initializer=_init_worker)
    return _pool


def close_pool():
    global _pool
    if _pool is not None:
        _pool.terminate()
        _pool.join()
        _pool = None


def pmap(fn, items, chunksize=None):
    """Ordered parallel map.  `fn` must be a module-level function."""
    items = list(items)
    if not items:
        return []
    if NPROC <= 1 or len(items) < 4:
        return [fn(x) for x in items]
    if chunksize is None:
        chunksize = max(1, min(256, len(items) // (NPROC * 8) or 1))
    return list(pool().imap(fn, items, chunksize))


def pmap_timeout(fn, items, timeout):
    """Like pmap, one task per item, in batches of one item per worker with a common generous wall-clock deadline.
    Returns (result | TIMEOUT) per item.  A worker that exceeds the limit is stuck in code the fuel counter does not
    see (e.g. inside `re`): the pool is rebuilt before the next batch."""
    import time
    items = list(items)
    out = [None] * len(items)
    for lo in range(0, len(items), NPROC):
        batch = [(i, pool().apply_async(fn, (items[i],))) for i in range(lo, min(len(items), lo + NPROC))]
        deadline = time.time() + timeout
        stuck = False
        for i, r in batch:
            try:
                out[i] = r.get(max(0.01, deadline - time.time()))
            except mp.TimeoutError:
                out[i] = TIMEOUT
                stuck = True
        if stuck:
            close_pool()
    return out


TIMEOUT = "__wall_clock_limit__"


def pmap_iter(fn, items, chunksize=16):
    if NPROC <= 1:
        for x in items:
            yield fn(x)
        return
    yield from pool().imap(fn, items, chunksize)


class Stats:
    """Counters every check reports (DESIGN §3 'vacuity guards')."""

    def __init__(self):
        self.t0 = time.time()
        self.states = 0
        self.transitions = 0
        self.runs = 0
        self.depth_hist = {}
        self.outcomes = set()
        self.merges = 0
        self.caps = []
        self.vacuity = {}
        self.samples = []
        self.extra = {}

    def bump(self, key, n=1):
        self.vacuity[key] = self.vacuity.get(key, 0) + n

    def sample(self, obj, limit=6):
        if len(self.samples) < limit:
            self.samples.append(obj)

    def wall(self):
        return round(time.time() - self.t0, 3)


def bfs(initial_hists, expand, run_many, key_of, max_depth, stats, on_result=None,
        max_states=None):
    """Explicit-state breadth-first search over *histories*.

    initial_hists : list of histories (tuples) forming depth 0
    expand(hist)  : ordered list of next histories (hist + one block)
    run_many(list_of_hist) -> list of observations (executed on the real code)
    key_of(hist, obs) -> hashable canonical product state, or None (dead end)
    on_result(hist, obs): oracle hook, called for EVERY transition
    Returns (seen: key -> representative history, edges: list[(parent_hist, hist, key, new)]).
    """
    seen = {}
    frontier = []
    obs0 = run_many(initial_hists)
    stats.runs += len(initial_hists)
    for h, o in zip(initial_hists, obs0):
        if on_result:
            on_result(h, o)
        k = key_of(h, o)
        if k is not None and k not in seen:
            seen[k] = h
            frontier.append(h)
    stats.depth_hist[0] = len(frontier)
    edges = []
    for depth in range(1, max_depth + 1):
        cand = []
        for h in frontier:
            cand.extend(expand(h))
        if not cand:
            break
        obs = run_many(cand)
        stats.runs += len(cand)
        stats.transitions += len(cand)
        nxt = []
        for h, o in zip(cand, obs):
            if on_result:
                on_result(h, o)
            k = key_of(h, o)
            if k is None:
                continue
            new = k not in seen
            if new:
                seen[k] = h
                nxt.append(h)
            else:
                stats.merges += 1
            edges.append((h[:-1], h, k, new))
        stats.depth_hist[depth] = len(nxt)
        frontier = nxt
        if os.environ.get("VERIF_VERBOSE"):
            import sys
            print(f"  bfs depth {depth}: {len(cand)} transitions, {len(nxt)} new states, {len(seen)} total, "
                  f"{stats.wall()}s", file=sys.stderr)
        if max_states is not None and len(seen) >= max_states:
            stats.caps.append(f"max_states={max_states} reached at depth {depth}")
            break
        if not frontier:
            break
    stats.states = len(seen)
    return seen, edges


def strings_upto(alphabet, n):
    """All strings over `alphabet` of length 0..n, shortest first (the trie, BFS order)."""
    for k in range(n + 1):
        for tup in itertools.product(alphabet, repeat=k):
            yield "".join(tup)


def chunked(it, size):
    it = iter(it)
    while True:
        buf = list(itertools.islice(it, size))
        if not buf:
            return
        yield buf
