"""Running model histories on the real pipeline (the transition function of the product search)."""
from __future__ import annotations

import hashlib

from . import canon, impl
from .model import norm

BOUNDS = {"quick": norm.QUICK, "thorough": norm.THOROUGH}

_pre_cache = {}


def pre_tokens(ftype, fname):
    """Tokens of the preamble (42 header [+ guard]) lexed once (fast path, DESIGN §2.3)."""
    key = (ftype, fname)
    if key not in _pre_cache:
        text = norm.render(norm.preamble(ftype, fname))
        toks, errs, exc = impl.lex(text, fname)
        assert exc is None and len(errs) == 0, (exc, list(errs))
        _pre_cache[key] = (toks, text.count("\n"), text)
    toks, n, text = _pre_cache[key]
    from norminette.lexer import Token

    return [Token(t.type, t.pos, t.value) for t in toks], n, text


def digest(obj):
    return hashlib.md5(repr(obj).encode()).hexdigest()[:16]


# Once the .c model has entered the function phase it can emit neither prototypes, globals,
# includes nor directives any more, so the alignment memory of the global scope and the include
# flag cannot influence any reachable future (DESIGN §2.1, model-aware entries).
FORGET_IN_FUNCS = ("GlobalScope.func_alignment", "GlobalScope.vars_alignment", "GlobalScope.include_allowed",
                   "func_alignment")


def run_lines(ftype, fname, body_lines, *, fast=True, trace=False, snap_line=None, keep_tokens=False, debug=0,
              forget=()):
    """body_lines: Lines after the preamble.  Returns (Result, snapshot-or-None, full_text)."""
    body = norm.render(body_lines)
    pre, npre, pretext = pre_tokens(ftype, fname)
    box = [None]
    cb = None
    if snap_line is not None:
        def cb(ctx, first):
            if first is not None and first.pos[0] == snap_line:
                box[0] = (canon.context_dump(ctx, forget), impl._scope_sig(ctx.scope))
    if fast:
        r = impl.run_text(fname, body, debug=debug, trace=trace, snap=cb, pre_tokens=pre, line0=npre + 1,
                          keep_tokens=keep_tokens, pretext=pretext)
    else:
        r = impl.run_text(fname, pretext + body, debug=debug, trace=trace, snap=cb, keep_tokens=keep_tokens)
    return r, box[0], pretext + body


def segmentation(r):
    """C07 invariants from the pop trace: returns (problems[], nsegments, n_unrecognised_pops)."""
    probs = []
    tr = r.trace or []
    total = 0
    unrec = 0
    for (stop, n, prim, firstpos, lasttype, scope) in tr:
        if stop < 1:
            probs.append("pop of %d tokens" % stop)
        # a jump past the end of the token list (stop > n) is harmless slicing: the property speaks of
        # covering the file without overlap, which `total` below checks (DESIGN §9)
        total += min(stop, n)
        if prim is None:
            unrec += 1
    if r.exc is None and total != r.ntokens:
        probs.append(f"pops cover {total} of {r.ntokens} tokens")
    return probs, len(tr), unrec


def eval_hist(task):
    """Worker: one transition of the product search.

    task = (ftype, ids, tier, opts) ; opts: dict(fast=bool, full_check=bool)
    Returns a compact dict.
    """
    ftype, ids, tier, opts = task
    b = BOUNDS[tier]
    fname = "test" + ftype
    rp = norm.replay(ftype, ids, b, fname, with_preamble=False)
    comp = norm.completion(rp.st)
    lines = rp.lines + comp
    npre = len(norm.preamble(ftype, fname))
    nb = len(rp.lines)
    # line (1-based, whole file) at which the last statement of the history starts
    snap_line = npre + _last_stmt_start(rp.lines) if nb else npre
    forget = FORGET_IN_FUNCS if (ftype == ".c" and rp.st.top.phase == norm.PH_FUNC) else ()
    r, snap, text = run_lines(ftype, fname, lines, fast=opts.get("fast", True), trace=True, snap_line=snap_line,
                              forget=forget)
    first_blk = npre + (rp.block_first_line[-1] if ids else 1)
    last_blk = npre + nb
    errs = [d for d in r.diags if d[0] == "Error"]
    out = {
        "first_blk": npre + (rp.block_first_line[-opts["rel"]] if opts.get("rel") and len(ids) >= opts["rel"] else 1),
        "errs": errs,
        "in_block": [d for d in errs if d[2] is not None and first_blk <= d[2] <= last_blk],
        "exc": r.exc,
        "status": r.status,
        "stdout": r.stdout,
        "nlines": npre + len(lines),
        "key": None,
        "scope": None,
        "mkey": None,
    }
    probs, nseg, unrec = segmentation(r)
    # conforming files: every segment starts at column 1 and ends with NEWLINE
    for (stop, n, prim, firstpos, lasttype, scope) in (r.trace or []):
        if firstpos is not None and firstpos[1] != 1:
            probs.append(f"statement starts at column {firstpos[1]} (line {firstpos[0]})")
            break
        if lasttype != "NEWLINE":
            probs.append(f"statement ends with {lasttype}")
            break
    if r.exc is None and nseg != npre - (0 if ftype == ".c" else 0) + sum(bl.nstmts for bl in rp.blocks) + _nstmts(comp):
        probs.append(f"{nseg} statements, model emitted {npre + sum(bl.nstmts for bl in rp.blocks) + _nstmts(comp)}")
    if r.trace and r.exc is None and len(r.trace[-1][5]) != 1:
        probs.append(f"nesting depth at end of file is {len(r.trace[-1][5])} ({r.trace[-1][5]})")
    out["seg"] = probs
    out["unrec"] = unrec
    if snap is not None:
        dump, scope = snap
        out["scope"] = scope
        ms = rp.st
        msk = norm.state_key(ms)
        fn_ = ms.fn
        out["mcls"] = (ms.top.phase, ms.top.gcount, ms.top.nfuncs, (fn_.stage, fn_.can_else, len(fn_.stack), min(fn_.ndecl, 2),
                       min(fn_.nlines, 3)) if fn_ else None)
        out["mkey"] = digest(msk)
        out["key"] = digest((msk, dump))
        out["ikey"] = digest(dump)
        exp = norm.expected_scope(ms)
        # the implementation opens the scope of a brace-less control statement lazily and closes
        # multiline ones at '}' -- compare kinds/depth after update()
        # the property speaks of the nesting *depth* (back at file level after each function); the kinds of
        # the scope objects are internal names and are not compared
        if len(scope) != len(exp):
            out["scope_mismatch"] = (tuple(scope), tuple(exp))
    if opts.get("validate_fast"):
        r2, _, _ = run_lines(ftype, fname, lines, fast=False)
        if (r2.diags, r2.exc, r2.status) != (r.diags, r.exc, r.status):
            out["fast_mismatch"] = (r.diags[:5], r2.diags[:5])
    if opts.get("want_text") or errs or r.exc or probs:
        out["text"] = text
    if errs:
        out["sigs"] = diag_signatures(text, fname, errs)
    return out


def _last_stmt_start(lines):
    last = 0
    in_multi = False
    for i, l in enumerate(lines, start=1):
        t = l.text()
        if in_multi:
            if t.startswith("*/"):
                in_multi = False
            continue
        if l.kind == "cont":
            continue
        if l.kind == "comment" and t == "/*":
            in_multi = True
        last = i
    return last


def diag_signatures(text, fname, diags):
    """Input-side signature of a diagnostic: code + kinds of the tokens around the highlighted
    position (2 on each side, blanks skipped) + kind of the first token of the line."""
    toks, _, exc = impl.lex(text, fname)
    if toks is None:
        return [f"{d[1]}@?" for d in diags]
    sig = []
    vis = [t for t in toks if t.type not in ("SPACE", "TAB")]
    for d in diags:
        idx = None
        for i, t in enumerate(vis):
            if t.pos[0] == d[2] and t.pos[1] >= (d[3] or 0):
                idx = i
                break
            if t.pos[0] > d[2]:
                idx = i
                break
        if idx is None:
            sig.append(f"{d[1]}@EOF")
            continue
        win = [vis[j].type if 0 <= j < len(vis) else "-" for j in range(idx - 2, idx + 3)]
        first = next((t.type for t in vis if t.pos[0] == d[2]), "-")
        sig.append(f"{d[1]}@{'.'.join(win)}|line:{first}")
    return sig


def _nstmts(lines):
    # multi-line comments of the model are one statement; everything else one per line
    n = 0
    in_multi = False
    for l in lines:
        t = l.text()
        if in_multi:
            if t.startswith("*/"):
                in_multi = False
            continue
        if l.kind == "cont":
            continue            # second physical line of a statement
        if l.kind == "comment" and t == "/*":
            in_multi = True
        n += 1
    return n


def eval_body(task):
    """Worker: run preamble + body text; returns (errs, sigs, exc, status, stdout)."""
    ftype, fname, body = task[:3]
    pre, npre, pretext = pre_tokens(ftype, fname)
    r = impl.run_text(fname, body, pre_tokens=pre, line0=npre + 1, pretext=pretext)
    errs = [d for d in r.diags if d[0] == "Error"]
    sigs = diag_signatures(pretext + body, fname, errs) if errs else []
    return errs, sigs, r.exc, r.status, r.stdout


def cli_text(task):
    """Worker: store `text` under `fname` in a scratch directory and run main() in process on it.
    task = (fname, text, argv_extra) -> dict(code, stdout, stderr, exc)"""
    import os
    import shutil
    import tempfile

    fname, text, extra = task
    d = tempfile.mkdtemp(prefix="mcverif_")
    try:
        path = os.path.join(d, fname)
        with open(path, "w") as f:
            f.write(text)
        # main() runs under the deterministic fuel counter too: a hang must become an observation
        return impl.run_cli(list(extra) + [path], fuel=2000 * (len(text) + 100))
    finally:
        shutil.rmtree(d, ignore_errors=True)
