"""The violation catalogue (DESIGN §4.2): edit operators on the block structure.

An operator is a generator  op(lines, lo, hi) -> (new_lines, expected_index, site)
where `lines` is the list of body Lines of a complete conforming file (after the preamble),
[lo, hi) the range of the block being edited; `expected_index` is the 0-based index in
new_lines of the line on which the diagnostic must be reported.
"""
from __future__ import annotations

from .norm import P, SP, KW, Line, IND, C, V, ID, stmt_line, assign, ret

OPS = {}


def op(vid, code, ftypes=(".c", ".h")):
    def deco(fn):
        OPS[vid] = (code, fn, ftypes)
        return fn
    return deco


def _with(lines, i, newline):
    out = list(lines)
    out[i] = newline
    return out


def _mod(line, pieces):
    return Line(pieces, line.kind, line.depth)


def _idx(line, *tags):
    return [k for k, p in enumerate(line.pieces) if p.tag in tags]


CODE_KINDS = ("simple", "return", "jump", "ctrl", "decl")
STMT_KINDS = ("simple", "return", "jump")


def in_body(lines, i):
    """True when line i lies inside a function body (depth >= 1 code line)."""
    return lines[i].depth >= 1 and lines[i].kind in ("simple", "return", "jump", "ctrl", "decl", "lbrace", "rbrace")


# ------------------------------------------------------------------ whitespace at line ends / indentation

@op("V01", "SPC_BEFORE_NL")
def v01(lines, lo, hi):
    for i in range(lo, hi):
        if lines[i].kind in ("simple", "return", "jump", "ctrl", "decl", "proto", "global", "funcsig", "rbrace", "lbrace",
                             "field", "typedef", "tbend", "tbhead", "enumr", "define", "include", "cont", "wsimple", "wreturn", "wctrl"):
            yield _with(lines, i, _mod(lines[i], lines[i].pieces + [P("sp", " ")])), i, lines[i].kind


@op("V02", "TAB_INSTEAD_SPC")
def v02(lines, lo, hi):
    # a trailing tab is reported with the same code as a trailing space
    for i in range(lo, hi):
        if lines[i].kind in ("simple", "return"):
            yield _with(lines, i, _mod(lines[i], lines[i].pieces + [P("tab", "\t")])), i, lines[i].kind


@op("V03", "SPACE_REPLACE_TAB")
def v03(lines, lo, hi):
    for i in range(lo, hi):
        l = lines[i]
        if l.depth >= 1 and l.kind in ("simple", "return", "jump", "ctrl") and l.pieces and l.pieces[0].tag == "ind":
            n = len(_idx(l, "ind"))
            yield _with(lines, i, _mod(l, [P("sp", "    ")] * n + l.pieces[n:])), i, l.kind


@op("V04", "TOO_FEW_TAB")
def v04(lines, lo, hi):
    for i in range(lo, hi):
        l = lines[i]
        if l.depth >= 1 and l.kind in ("simple", "return", "jump", "ctrl", "lbrace", "rbrace", "cont", "wsimple", "wreturn", "wctrl") and l.pieces[0].tag == "ind":
            yield _with(lines, i, _mod(l, l.pieces[1:])), i, l.kind


@op("V05", "TOO_MANY_TAB")
def v05(lines, lo, hi):
    for i in range(lo, hi):
        l = lines[i]
        if l.depth >= 1 and l.kind in ("simple", "return", "jump", "ctrl", "lbrace", "rbrace", "cont", "wsimple", "wreturn", "wctrl"):
            yield _with(lines, i, _mod(l, [P("ind", "\t")] + l.pieces)), i, l.kind


@op("V06", "SPACE_EMPTY_LINE")
def v06(lines, lo, hi):
    for i in range(lo, hi):
        if lines[i].kind == "empty":
            yield _with(lines, i, Line([P("sp", " ")], "empty")), i, "space"


@op("V07", "SPACE_EMPTY_LINE")
def v07(lines, lo, hi):
    for i in range(lo, hi):
        if lines[i].kind == "empty":
            yield _with(lines, i, Line([P("tab", "\t")], "empty")), i, "tab"


# ------------------------------------------------------------------ empty lines

@op("V08", "NL_AFTER_VAR_DECL", (".c",))
def v08(lines, lo, hi):
    for i in range(lo, hi):
        if lines[i].kind == "empty" and i > 0 and lines[i - 1].kind == "decl" and lines[i - 1].depth >= 1:
            yield lines[:i] + lines[i + 1:], i, "after-decls"


@op("V09", "EMPTY_LINE_FUNCTION", (".c",))
def v09(lines, lo, hi):
    for i in range(lo, hi):
        if lines[i].kind in STMT_KINDS + ("ctrl",) and i > 0 and lines[i - 1].kind in STMT_KINDS \
                and lines[i - 1].depth == lines[i].depth and lines[i].depth >= 1:
            yield lines[:i] + [Line([], "empty")] + lines[i:], i, "between-statements"


@op("V10", "CONSECUTIVE_NEWLINES")
def v10(lines, lo, hi):
    for i in range(lo, hi):
        if lines[i].kind == "empty" and (i == 0 or lines[i - 1].depth == 0) and i + 1 < len(lines):
            yield lines[:i + 1] + [Line([], "empty")] + lines[i + 1:], i + 1, "top-level"


@op("V11", "NEWLINE_PRECEDES_FUNC", (".c",))
def v11(lines, lo, hi):
    for i in range(lo, hi):
        if lines[i].kind == "empty" and i > 0 and lines[i - 1].kind == "rbrace" and lines[i - 1].depth == 0 \
                and i + 1 < len(lines) and lines[i + 1].kind == "funcsig":
            yield lines[:i] + lines[i + 1:], i, "between-functions"


@op("V12", "EMPTY_LINE_EOF")
def v12(lines, lo, hi):
    if hi == len(lines):
        yield lines + [Line([], "empty")], len(lines), "eof"


# ------------------------------------------------------------------ declarations

@op("V14", "VAR_DECL_START_FUNC", (".c",))
def v14(lines, lo, hi):
    for i in range(lo, hi):
        if lines[i].kind in ("simple",) and lines[i].depth == 1:
            d = Line(IND(1) + [P("type", "int")] + [P("align", "\t")] + [ID("local", "late")] + [P("semi", ";")], "decl", 1)
            yield lines[:i + 1] + [d] + lines[i + 1:], i + 1, "after-statement"


@op("V15", "DECL_ASSIGN_LINE", (".c",))
def v15(lines, lo, hi):
    for i in range(lo, hi):
        l = lines[i]
        if l.kind == "decl" and l.depth == 1 and not _idx(l, "assign") and not _idx(l, "lb") \
                and not any(p.text == "static" for p in l.pieces) and not any(p.text.startswith("struct") for p in l.pieces):
            yield _with(lines, i, _mod(l, l.pieces[:-1] + [SP(), P("assign", "="), SP()] + C("0") + [l.pieces[-1]])), i, "local"


@op("V16", "MULT_DECL_LINE", (".c",))
def v16(lines, lo, hi):
    for i in range(lo, hi):
        l = lines[i]
        if l.kind == "decl" and l.depth == 1 and not _idx(l, "assign"):
            yield _with(lines, i, _mod(l, l.pieces[:-1] + [P("comma", ","), SP(), ID("local", "other"), l.pieces[-1]])), i, "local"


@op("V17", "MISALIGNED_VAR_DECL")
def v17(lines, lo, hi):
    for i in range(lo, hi):
        l = lines[i]
        if l.kind in ("decl", "field", "global") and i > 0 and lines[i - 1].kind == l.kind:
            k = _idx(l, "align")
            if k:
                pcs = list(l.pieces)
                pcs[k[0]] = P("align", pcs[k[0]].text + "\t")
                yield _with(lines, i, _mod(l, pcs)), i, l.kind


@op("V18", "SPACE_REPLACE_TAB")
def v18(lines, lo, hi):
    for i in range(lo, hi):
        l = lines[i]
        if l.kind in ("decl", "field", "global"):
            k = _idx(l, "align")
            if k:
                pcs = list(l.pieces)
                pcs[k[0]] = P("sp", " ")
                yield _with(lines, i, _mod(l, pcs)), i, l.kind


@op("V19", "WRONG_SCOPE_VAR", (".c",))
def v19(lines, lo, hi):
    for i in range(lo, hi):
        if lines[i].kind == "lbrace" and lines[i].depth >= 1:
            d = lines[i].depth + 1
            decl = Line(IND(d) + [P("type", "int"), P("align", "\t"), ID("local", "inner"), P("semi", ";")], "decl", d)
            yield lines[:i + 1] + [decl] + lines[i + 1:], i + 1, "in-block"


# ------------------------------------------------------------------ forbidden constructs

def _ctrl_parts(l):
    """(indent pieces, keyword index, cond pieces) of an `if (...)`/`while (...)` line."""
    ks = _idx(l, "kw")
    return ks


@op("V20", "FORBIDDEN_CS", (".c",))
def v20(lines, lo, hi):
    for i in range(lo, hi):
        l = lines[i]
        if l.kind == "ctrl" and any(p == KW("while") for p in l.pieces):
            k = l.pieces.index(KW("while"))
            lp = k + 2
            pcs = l.pieces[:k] + [KW("for"), SP(), P("lp", "("), P("semi", ";"), SP()] + l.pieces[lp + 1:-1] + \
                [P("semi", ";"), P("rp", ")")]
            yield _with(lines, i, _mod(l, pcs)), i, "for"


@op("V21", "FORBIDDEN_CS", (".c",))
def v21(lines, lo, hi):
    for i in range(lo, hi):
        l = lines[i]
        if l.kind == "ctrl" and l.pieces[len(_idx(l, "ind"))] == KW("if") and i + 1 < len(lines) and lines[i + 1].kind == "lbrace":
            k = l.pieces.index(KW("if"))
            pcs = list(l.pieces)
            pcs[k] = KW("switch")
            yield _with(lines, i, _mod(l, pcs)), i, "switch"


@op("V22", "FORBIDDEN_CS", (".c",))
def v22(lines, lo, hi):
    for i in range(lo, hi):
        l = lines[i]
        if l.kind == "simple" and l.depth >= 2 and i > 0 and lines[i - 1].kind == "lbrace":
            case = Line(IND(l.depth) + [KW("case"), SP()] + C("1") + [P("colon", ":")], "case", l.depth)
            yield lines[:i] + [case] + lines[i:], i, "case"


@op("V23", "GOTO_FBIDDEN", (".c",))
def v23(lines, lo, hi):
    for i in range(lo, hi):
        l = lines[i]
        if l.kind == "simple":
            yield _with(lines, i, Line(IND(l.depth) + [KW("goto"), SP(), ID("label", "end"), P("semi", ";")], "goto", l.depth)), i, "goto"


@op("V24", "LABEL_FBIDDEN", (".c",))
def v24(lines, lo, hi):
    for i in range(lo, hi):
        l = lines[i]
        if l.kind == "simple" and l.depth == 1:
            yield _with(lines, i, Line(IND(l.depth) + [ID("label", "end"), P("colon", ":")], "label", l.depth)), i, "label"


@op("V25", "TERNARY_FBIDDEN", (".c",))
def v25(lines, lo, hi):
    for i in range(lo, hi):
        l = lines[i]
        k = _idx(l, "assign")
        if l.kind == "simple" and k and l.depth >= 1:
            rhs = l.pieces[k[0] + 2:-1]
            pcs = l.pieces[:k[0] + 2] + V("n") + [SP(), P("tern", "?"), SP()] + rhs + [SP(), P("colon", ":"), SP()] + C("0") + [l.pieces[-1]]
            yield _with(lines, i, _mod(l, pcs)), i, "ternary"


def _params_range(l):
    """Indices (a, b) such that pieces[a:b] are the parameter pieces of a signature/prototype line."""
    lps = _idx(l, "lp")
    rps = _idx(l, "rp")
    if not lps or not rps:
        return None
    return lps[0] + 1, rps[-1]


@op("V26", "NO_ARGS_VOID", (".c",))
def v26(lines, lo, hi):
    for i in range(lo, hi):
        l = lines[i]
        if l.kind == "funcsig":
            a, b = _params_range(l)
            if l.pieces[a:b] == [P("type", "void")]:
                yield _with(lines, i, _mod(l, l.pieces[:a] + l.pieces[b:])), i, "definition"


@op("V27", "NO_ARGS_VOID")
def v27(lines, lo, hi):
    for i in range(lo, hi):
        l = lines[i]
        if l.kind == "proto":
            a, b = _params_range(l)
            if l.pieces[a:b] == [P("type", "void")]:
                yield _with(lines, i, _mod(l, l.pieces[:a] + l.pieces[b:])), i, "prototype"


@op("V28", "MISSING_IDENTIFIER")
def v28(lines, lo, hi):
    for i in range(lo, hi):
        l = lines[i]
        if l.kind == "proto":
            for k in _idx(l, "id:param"):
                # drop the name (and the blank before it when the name is not glued to a star)
                pcs = list(l.pieces)
                if pcs[k - 1].tag == "psp":
                    del pcs[k - 1:k + 1]
                else:
                    del pcs[k]
                yield _with(lines, i, _mod(l, pcs)), i, "prototype-param"


@op("V29", "FORBIDDEN_CHAR_NAME", (".c",))
def v29(lines, lo, hi):
    for i in range(lo, hi):
        l = lines[i]
        if l.kind == "funcsig":
            k = _idx(l, "id:func")[0]
            pcs = list(l.pieces)
            pcs[k] = P(pcs[k].tag, pcs[k].text[:3] + pcs[k].text[3].upper() + pcs[k].text[4:])
            yield _with(lines, i, _mod(l, pcs)), i, "function-name"


@op("V30", "FORBIDDEN_CHAR_NAME")
def v30(lines, lo, hi):
    for i in range(lo, hi):
        l = lines[i]
        if l.kind in ("decl", "global", "field"):
            ks = _idx(l, "id:local", "id:global", "id:member")
            if ks:
                k = ks[0]
                pcs = list(l.pieces)
                t = pcs[k].text
                pcs[k] = P(pcs[k].tag, t[:-1] + t[-1].upper())
                if pcs[k].text != t:
                    yield _with(lines, i, _mod(l, pcs)), i, l.kind


@op("V31", "GLOBAL_VAR_NAMING", (".c",))
def v31(lines, lo, hi):
    for i in range(lo, hi):
        l = lines[i]
        if l.kind == "global":
            k = _idx(l, "id:global")[0]
            pcs = list(l.pieces)
            pcs[k] = P(pcs[k].tag, pcs[k].text[2:])
            # keep the alignment column: the name did not move
            yield _with(lines, i, _mod(l, pcs)), i, "global"


@op("V32", "USER_DEFINED_TYPEDEF", (".h",))
def v32(lines, lo, hi):
    for i in range(lo, hi):
        l = lines[i]
        if l.kind in ("tbend", "typedef"):
            ks = _idx(l, "id:typedef")
            if ks:
                pcs = list(l.pieces)
                pcs[ks[0]] = P(pcs[ks[0]].tag, pcs[ks[0]].text[2:])
                yield _with(lines, i, _mod(l, pcs)), i, l.kind


@op("V33", "STRUCT_TYPE_NAMING", (".h",))
def v33(lines, lo, hi):
    for i in range(lo, hi):
        l = lines[i]
        if l.kind == "tbhead" and l.pieces[0].text == "struct":
            k = _idx(l, "id:struct")[0]
            pcs = list(l.pieces)
            pcs[k] = P(pcs[k].tag, pcs[k].text[2:])
            yield _with(lines, i, _mod(l, pcs)), i, "plain-struct"


# ------------------------------------------------------------------ operator spacing

def _drop_adjacent_space(l, k, side):
    pcs = list(l.pieces)
    j = k - 1 if side == "before" else k + 1
    if 0 <= j < len(pcs) and pcs[j].tag == "sp":
        del pcs[j]
        return pcs
    return None


def _opsites(lines, lo, hi, tag, side, kinds=("simple", "return", "ctrl", "decl", "global")):
    for i in range(lo, hi):
        l = lines[i]
        if l.kind not in kinds:
            continue
        for n, k in enumerate(_idx(l, tag)):
            pcs = _drop_adjacent_space(l, k, side)
            if pcs is not None:
                yield _with(lines, i, _mod(l, pcs)), i, f"{l.kind}:{l.pieces[k].text}"


@op("V34", "SPC_BFR_OPERATOR", (".c",))
def v34(lines, lo, hi):
    yield from _opsites(lines, lo, hi, "binop", "before")


@op("V35", "SPC_AFTER_OPERATOR", (".c",))
def v35(lines, lo, hi):
    yield from _opsites(lines, lo, hi, "binop", "after")


@op("V36", "SPC_BFR_OPERATOR", (".c",))
def v36(lines, lo, hi):
    yield from _opsites(lines, lo, hi, "assign", "before")


@op("V37", "SPC_AFTER_OPERATOR", (".c",))
def v37(lines, lo, hi):
    yield from _opsites(lines, lo, hi, "assign", "after")


@op("V38", "SPC_AFTER_OPERATOR")
def v38(lines, lo, hi):
    yield from _opsites(lines, lo, hi, "comma", "after", kinds=("simple", "return", "ctrl", "funcsig", "proto", "global"))


@op("V39", "NO_SPC_BFR_OPR")
def v39(lines, lo, hi):
    for i in range(lo, hi):
        l = lines[i]
        if l.kind in ("simple", "return", "ctrl", "funcsig", "proto"):
            for k in _idx(l, "comma"):
                pcs = l.pieces[:k] + [SP()] + l.pieces[k:]
                yield _with(lines, i, _mod(l, pcs)), i, l.kind


@op("V40", "SPC_AFTER_OPERATOR", (".c",))
def v40(lines, lo, hi):
    for i in range(lo, hi):
        l = lines[i]
        for k in _idx(l, "unop"):
            if l.pieces[k].text == "-" and l.kind in ("simple", "return", "ctrl"):
                pcs = l.pieces[:k + 1] + [SP()] + l.pieces[k + 1:]
                yield _with(lines, i, _mod(l, pcs)), i, l.kind


def _kw_then_space(lines, lo, hi, kws, kinds):
    for i in range(lo, hi):
        l = lines[i]
        if l.kind not in kinds:
            continue
        for k in _idx(l, "kw"):
            if l.pieces[k].text in kws and k + 1 < len(l.pieces) and l.pieces[k + 1].tag == "sp":
                pcs = l.pieces[:k + 1] + l.pieces[k + 2:]
                yield _with(lines, i, _mod(l, pcs)), i, l.pieces[k].text


@op("V41", "SPACE_AFTER_KW", (".c",))
def v41(lines, lo, hi):
    yield from _kw_then_space(lines, lo, hi, ("if", "while"), ("ctrl",))


@op("V42", "SPACE_AFTER_KW", (".c",))
def v42(lines, lo, hi):
    for r in _kw_then_space(lines, lo, hi, ("return",), ("return", "simple")):
        new, i, site = r
        if any(p.tag == "lp" for p in new[i].pieces):
            yield r


@op("V43", "SPACE_AFTER_KW", (".c",))
def v43(lines, lo, hi):
    for r in _kw_then_space(lines, lo, hi, ("break", "continue", "return"), ("jump", "return", "simple")):
        new, i, site = r
        if not any(p.tag == "lp" for p in new[i].pieces):
            yield r


def _insert_space(lines, lo, hi, tag, side, kinds):
    for i in range(lo, hi):
        l = lines[i]
        if l.kind not in kinds:
            continue
        for k in _idx(l, tag):
            if side == "after":
                if k + 1 < len(l.pieces) and l.pieces[k + 1].tag in ("rp", "rb"):
                    continue
                pcs = l.pieces[:k + 1] + [SP()] + l.pieces[k + 1:]
            else:
                if l.pieces[k - 1].tag in ("lp", "lb"):
                    continue
                pcs = l.pieces[:k] + [SP()] + l.pieces[k:]
            yield _with(lines, i, _mod(l, pcs)), i, l.kind


@op("V44", "NO_SPC_AFR_PAR", (".c",))
def v44(lines, lo, hi):
    yield from _insert_space(lines, lo, hi, "lp", "after", ("simple", "return", "ctrl"))


@op("V45", "NO_SPC_BFR_PAR", (".c",))
def v45(lines, lo, hi):
    yield from _insert_space(lines, lo, hi, "rp", "before", ("simple", "return", "ctrl"))


@op("V46", "NO_SPC_AFR_PAR", (".c",))
def v46(lines, lo, hi):
    yield from _insert_space(lines, lo, hi, "lb", "after", ("simple", "return", "ctrl"))


@op("V47", "NO_SPC_BFR_PAR", (".c",))
def v47(lines, lo, hi):
    yield from _insert_space(lines, lo, hi, "rb", "before", ("simple", "return", "ctrl"))


@op("V48", "RETURN_PARENTHESIS", (".c",))
def v48(lines, lo, hi):
    for i in range(lo, hi):
        l = lines[i]
        if l.kind == "return" and _idx(l, "lp"):
            k = _idx(l, "lp")[0]
            r = _idx(l, "rp")[-1]
            pcs = l.pieces[:k] + l.pieces[k + 1:r] + l.pieces[r + 1:]
            yield _with(lines, i, _mod(l, pcs)), i, "return"


@op("V49", "ASSIGN_IN_CONTROL", (".c",))
def v49(lines, lo, hi):
    for i in range(lo, hi):
        l = lines[i]
        if l.kind == "ctrl" and _idx(l, "lp"):
            k = _idx(l, "lp")[0]
            r = _idx(l, "rp")[-1]
            pcs = l.pieces[:k + 1] + [P("lp", "(")] + V("res") + [SP(), P("assign", "="), SP()] + l.pieces[k + 1:r] + \
                [P("rp", ")")] + l.pieces[r:]
            yield _with(lines, i, _mod(l, pcs)), i, "condition"


@op("V50", "TOO_MANY_INSTR", (".c",))
def v50(lines, lo, hi):
    for i in range(lo, hi):
        l = lines[i]
        if l.kind in ("simple", "return") and i > 0 and lines[i - 1].kind == "simple" and lines[i - 1].depth == l.depth:
            n = len(_idx(l, "ind"))
            joined = _mod(lines[i - 1], lines[i - 1].pieces + [SP()] + l.pieces[n:])
            yield lines[:i - 1] + [joined] + lines[i + 1:], i - 1, "joined"


@op("V51", "MULT_ASSIGN_LINE", (".c",))
def v51(lines, lo, hi):
    for i in range(lo, hi):
        l = lines[i]
        ks = _idx(l, "assign")
        if l.kind == "simple" and ks and l.pieces[ks[0]].text == "=":
            k = ks[0]
            pcs = l.pieces[:k + 2] + V("res") + [SP(), P("assign", "="), SP()] + l.pieces[k + 2:]
            yield _with(lines, i, _mod(l, pcs)), i, "chained"


# ------------------------------------------------------------------ comments

@op("V52", "WRONG_SCOPE_COMMENT", (".c",))
def v52(lines, lo, hi):
    for i in range(lo, hi):
        l = lines[i]
        if l.kind in STMT_KINDS and l.depth >= 1:
            c = Line(IND(l.depth) + [P("cmt", "// note")], "comment", l.depth)
            yield lines[:i] + [c] + lines[i:], i, "own-line"


@op("V53", "WRONG_SCOPE_COMMENT", (".c",))
def v53(lines, lo, hi):
    for i in range(lo, hi):
        l = lines[i]
        if l.kind in STMT_KINDS and l.depth >= 1:
            yield _with(lines, i, _mod(l, l.pieces + [SP(), P("cmt", "/* note */")])), i, "end-of-line"


@op("V54", "COMMENT_ON_INSTR")
def v54(lines, lo, hi):
    for i in range(lo, hi):
        l = lines[i]
        if l.kind in ("global", "proto"):
            ks = _idx(l, "align")
            if ks:
                k = ks[0]
                pcs = l.pieces[:k] + [SP(), P("cmt", "/* c */")] + l.pieces[k:]
                yield _with(lines, i, _mod(l, pcs)), i, l.kind


@op("V55", "VLA_FORBIDDEN", (".c",))
def v55(lines, lo, hi):
    for i in range(lo, hi):
        l = lines[i]
        if l.kind == "decl" and l.depth == 1 and _idx(l, "lb") and not _idx(l, "assign"):
            k = _idx(l, "lb")[0]
            pcs = list(l.pieces)
            pcs[k + 1] = ID("param", "n")
            yield _with(lines, i, _mod(l, pcs)), i, "array-size"


# ------------------------------------------------------------------ preprocessor

@op("V56", "MACRO_NAME_CAPITAL")
def v56(lines, lo, hi):
    for i in range(lo, hi):
        l = lines[i]
        if l.kind == "define":
            k = _idx(l, "id:macro")[0]
            pcs = list(l.pieces)
            pcs[k] = P(pcs[k].tag, pcs[k].text.lower())
            yield _with(lines, i, _mod(l, pcs)), i, "define"


@op("V57", "MACRO_FUNC_FORBIDDEN")
def v57(lines, lo, hi):
    for i in range(lo, hi):
        l = lines[i]
        if l.kind == "define" and len(_idx(l, "id:macro")) >= 1 and len(l.pieces) > _idx(l, "id:macro")[0] + 1:
            k = _idx(l, "id:macro")[0]
            pcs = l.pieces[:k + 1] + [P("lp", "("), ID("param", "x"), P("rp", ")")] + l.pieces[k + 1:]
            yield _with(lines, i, _mod(l, pcs)), i, "define"


@op("V58", "PREPROC_CONSTANT")
def v58(lines, lo, hi):
    for i in range(lo, hi):
        l = lines[i]
        if l.kind == "define" and l.pieces[-1].tag == "const" and l.pieces[-2].tag == "sp":
            pcs = l.pieces + [SP(), P("binop", "+"), SP()] + C("1")
            yield _with(lines, i, _mod(l, pcs)), i, "define"


@op("V59", "INCLUDE_HEADER_ONLY")
def v59(lines, lo, hi):
    for i in range(lo, hi):
        l = lines[i]
        if l.kind == "include":
            k = _idx(l, "incpath")[0]
            t = l.pieces[k].text
            pcs = list(l.pieces)
            pcs[k] = P("incpath", t[:-2] + "c" + t[-1])
            yield _with(lines, i, _mod(l, pcs)), i, "include"


@op("V60", "INCLUDE_START_FILE", (".c",))
def v60(lines, lo, hi):
    for i in range(lo, hi):
        l = lines[i]
        if l.kind == "rbrace" and l.depth == 0:
            inc = Line([P("hash", "#"), P("dir", "include"), SP(), P("incpath", "<late.h>")], "include")
            yield lines[:i + 1] + [Line([], "empty"), inc] + lines[i + 1:], i + 2, "after-function"


@op("V61", "PREPROC_START_LINE")
def v61(lines, lo, hi):
    for i in range(lo, hi):
        l = lines[i]
        if l.kind in ("include", "define", "cond"):
            yield _with(lines, i, _mod(l, [SP()] + l.pieces)), i, l.kind


@op("V62", "TOO_MANY_WS", (".c",))
def v62(lines, lo, hi):
    for i in range(lo, hi):
        l = lines[i]
        if l.kind in ("include", "define") and l.pieces[1].tag == "dir":
            yield _with(lines, i, _mod(l, l.pieces[:1] + [P("pind", " ")] + l.pieces[1:])), i, l.kind


@op("V63", "PREPROC_BAD_INDENT")
def v63(lines, lo, hi):
    for i in range(lo, hi):
        l = lines[i]
        if l.kind in ("include", "define", "cond") and l.pieces[1].tag == "pind":
            yield _with(lines, i, _mod(l, l.pieces[:1] + l.pieces[2:])), i, l.kind


@op("V64", "PREPROC_NO_SPACE")
def v64(lines, lo, hi):
    for i in range(lo, hi):
        l = lines[i]
        if l.kind == "include" and "<" in l.pieces[-1].text:
            k = _idx(l, "dir")[0]
            yield _with(lines, i, _mod(l, l.pieces[:k + 1] + l.pieces[k + 2:])), i, "include"


@op("V65", "CONSECUTIVE_WS")
def v65(lines, lo, hi):
    for i in range(lo, hi):
        l = lines[i]
        if l.kind in ("include", "define"):
            k = _idx(l, "dir")[0]
            yield _with(lines, i, _mod(l, l.pieces[:k + 1] + [SP()] + l.pieces[k + 1:])), i, l.kind


@op("V66", "TAB_REPLACE_SPACE")
def v66(lines, lo, hi):
    for i in range(lo, hi):
        l = lines[i]
        if l.kind in ("include", "define"):
            k = _idx(l, "dir")[0]
            pcs = list(l.pieces)
            pcs[k + 1] = P("tab", "\t")
            yield _with(lines, i, _mod(l, pcs)), i, l.kind


@op("V67", "PREPOC_ONLY_GLOBAL", (".c",))
def v67(lines, lo, hi):
    for i in range(lo, hi):
        l = lines[i]
        if l.kind in STMT_KINDS and l.depth >= 1:
            d = Line([P("hash", "#"), P("dir", "define"), SP(), ID("macro", "INSIDE"), SP()] + C("1"), "define")
            yield lines[:i] + [d] + lines[i:], i, "in-body"


@op("V68", "NL_AFTER_PREPROC", (".c",))
def v68(lines, lo, hi):
    for i in range(lo, hi):
        if lines[i].kind == "empty" and i > 0 and lines[i - 1].kind in ("include", "define") and i + 1 < len(lines) \
                and lines[i + 1].kind in ("funcsig", "global", "proto"):
            yield lines[:i] + lines[i + 1:], i, "after-prelude"


def _top_boundaries(lines, lo, hi):
    for i in range(lo, hi + 1):
        if i < len(lines) and lines[i].kind == "empty" and (i == 0 or lines[i - 1].depth == 0) \
                and (i == 0 or lines[i - 1].kind in ("rbrace", "include", "define", "global", "proto", "empty", "hdr42", "tbend", "typedef")):
            yield i


@op("V69", "PREPROC_BAD_IF", (".c",))
def v69(lines, lo, hi):
    for i in _top_boundaries(lines, lo, hi):
        d = Line([P("hash", "#"), P("dir", "if"), SP(), ID("macro", "DEBUG")], "if")
        yield lines[:i + 1] + [d, Line([], "empty")] + lines[i + 1:], i + 1, "unclosed-if"


@op("V70", "PREPROC_BAD_ENDIF", (".c",))
def v70(lines, lo, hi):
    for i in _top_boundaries(lines, lo, hi):
        d = Line([P("hash", "#"), P("dir", "endif")], "endif")
        yield lines[:i + 1] + [d, Line([], "empty")] + lines[i + 1:], i + 1, "stray-endif"


@op("V71", "PREPROC_BAD_ELSE", (".c",))
def v71(lines, lo, hi):
    for i in _top_boundaries(lines, lo, hi):
        d = Line([P("hash", "#"), P("dir", "else")], "else")
        yield lines[:i + 1] + [d, Line([], "empty")] + lines[i + 1:], i + 1, "stray-else"


@op("V72", "FORBIDDEN_STRUCT", (".c",))
def v72(lines, lo, hi):
    for i in _top_boundaries(lines, lo, hi):
        blk = [Line([P("type", "struct"), SP(), ID("struct", "s_pair")], "tbhead"), Line([P("lbrace", "{")], "lbrace"),
               Line(IND(1) + [P("type", "int"), P("align", "\t"), ID("member", "a"), P("semi", ";")], "field", 1),
               Line([P("rbrace", "}"), P("semi", ";")], "tbend"), Line([], "empty")]
        yield lines[:i + 1] + blk + lines[i + 1:], i + 1, "struct-in-c"


@op("V73", "FORBIDDEN_TYPEDEF", (".c",))
def v73(lines, lo, hi):
    for i in _top_boundaries(lines, lo, hi):
        blk = [Line([P("type", "typedef"), SP(), P("type", "int"), P("align", "\t"), ID("typedef", "t_int"), P("semi", ";")], "typedef"),
               Line([], "empty")]
        yield lines[:i + 1] + blk + lines[i + 1:], i + 1, "typedef-in-c"


# ------------------------------------------------------------------ braces / layout

@op("V74", "BRACE_SHOULD_EOL", (".c",))
def v74(lines, lo, hi):
    for i in range(lo, hi):
        l = lines[i]
        if l.kind == "lbrace" and l.depth >= 1 and i + 1 < len(lines) and lines[i + 1].kind in STMT_KINDS:
            n = len(_idx(lines[i + 1], "ind"))
            joined = _mod(l, l.pieces + [SP()] + lines[i + 1].pieces[n:])
            yield lines[:i] + [joined] + lines[i + 2:], i, "brace-then-statement"


@op("V75", "TOO_MANY_TABS_FUNC", (".c",))
def v75(lines, lo, hi):
    for i in range(lo, hi):
        l = lines[i]
        if l.kind == "funcsig":
            k = _idx(l, "align")[0]
            pcs = list(l.pieces)
            pcs[k] = P("align", "\t\t")
            yield _with(lines, i, _mod(l, pcs)), i, "definition"


@op("V76", "SPACE_BEFORE_FUNC", (".c",))
def v76(lines, lo, hi):
    for i in range(lo, hi):
        l = lines[i]
        if l.kind == "funcsig":
            k = _idx(l, "align")[0]
            pcs = list(l.pieces)
            pcs[k] = P("sp", " ")
            yield _with(lines, i, _mod(l, pcs)), i, "definition"


@op("V77", "MISALIGNED_FUNC_DECL")
def v77(lines, lo, hi):
    for i in range(lo, hi):
        l = lines[i]
        if l.kind == "proto" and i > 0 and lines[i - 1].kind == "proto":
            k = _idx(l, "align")[0]
            pcs = list(l.pieces)
            pcs[k] = P("align", pcs[k].text + "\t")
            yield _with(lines, i, _mod(l, pcs)), i, "prototype"


@op("V78", "SPC_AFTER_POINTER")
def v78(lines, lo, hi):
    for i in range(lo, hi):
        l = lines[i]
        for k in _idx(l, "ptr", "deref"):
            if l.kind in ("decl", "global", "field", "simple", "proto", "funcsig"):
                pcs = l.pieces[:k + 1] + [SP()] + l.pieces[k + 1:]
                yield _with(lines, i, _mod(l, pcs)), i, f"{l.kind}:{l.pieces[k].tag}"


@op("V79", "CONSECUTIVE_SPC", (".c",))
def v79(lines, lo, hi):
    for i in range(lo, hi):
        l = lines[i]
        if l.kind in ("simple", "return", "ctrl"):
            for k in _idx(l, "sp"):
                pcs = l.pieces[:k] + [SP()] + l.pieces[k:]
                yield _with(lines, i, _mod(l, pcs)), i, l.kind


@op("V80", "TAB_INSTEAD_SPC", (".c",))
def v80(lines, lo, hi):
    for i in range(lo, hi):
        l = lines[i]
        if l.kind in ("simple", "return", "ctrl"):
            for k in _idx(l, "sp"):
                pcs = list(l.pieces)
                pcs[k] = P("tab", "\t")
                yield _with(lines, i, _mod(l, pcs)), i, l.kind


@op("V81", "EOL_OPERATOR", (".c",))
def v81(lines, lo, hi):
    for i in range(lo, hi):
        l = lines[i]
        if l.kind == "ctrl":
            for k in _idx(l, "binop"):
                if l.pieces[k].text in ("&&", "||"):
                    first = _mod(l, l.pieces[:k + 1])
                    second = Line(IND(l.depth + 1) + l.pieces[k + 2:], "cont", l.depth)
                    yield lines[:i] + [first, second] + lines[i + 1:], i, "logic-op-at-eol"


@op("V82", "COMMA_START_LINE", (".c",))
def v82(lines, lo, hi):
    for i in range(lo, hi):
        l = lines[i]
        if l.kind == "simple":
            for k in _idx(l, "comma"):
                first = _mod(l, l.pieces[:k])
                second = Line(IND(l.depth + 1) + l.pieces[k:], "cont", l.depth)
                # the statement now spans two lines; the diagnostic may sit on either (DESIGN §9)
                yield lines[:i] + [first, second] + lines[i + 1:], (i, i + 1), "comma-first"


@op("V83", "MIXED_SPACE_TAB", (".c",))
def v83(lines, lo, hi):
    for i in range(lo, hi):
        l = lines[i]
        if l.kind in ("simple", "return", "ctrl") and l.depth >= 1:
            n = len(_idx(l, "ind"))
            yield _with(lines, i, _mod(l, l.pieces[:n] + [SP()] + l.pieces[n:])), i, l.kind


@op("V84", "EXP_NEWLINE", (".c",))
def v84(lines, lo, hi):
    for i in range(lo, hi):
        l = lines[i]
        if l.kind == "ctrl" and i + 1 < len(lines) and lines[i + 1].kind == "simple" and lines[i + 1].depth == l.depth + 1:
            n = len(_idx(lines[i + 1], "ind"))
            joined = _mod(l, l.pieces + [SP()] + lines[i + 1].pieces[n:])
            yield lines[:i] + [joined] + lines[i + 2:], i, "body-on-same-line"


@op("V85", "WRONG_SCOPE", (".c",))
def v85(lines, lo, hi):
    for i in _top_boundaries(lines, lo, hi):
        d = Line([KW("if"), SP(), P("lp", "(")] + C("1") + [P("rp", ")")], "ctrl")
        s = Line(IND(1) + V("g_x") + [SP(), P("assign", "="), SP()] + C("0") + [P("semi", ";")], "simple", 1)
        yield lines[:i + 1] + [d, s, Line([], "empty")] + lines[i + 1:], i + 1, "if-at-file-level"


@op("V86", "BRACE_NEWLINE", (".h",))
def v86(lines, lo, hi):
    for i in range(lo, hi):
        l = lines[i]
        if l.kind == "tbhead" and i + 1 < len(lines) and lines[i + 1].kind == "lbrace":
            joined = _mod(l, l.pieces + [SP(), P("lbrace", "{")])
            yield lines[:i] + [joined] + lines[i + 2:], i, "typedef-head"


@op("V87", "SPACE_REPLACE_TAB", (".h",))
def v87(lines, lo, hi):
    for i in range(lo, hi):
        l = lines[i]
        if l.kind == "tbend" and _idx(l, "align"):
            k = _idx(l, "align")[0]
            pcs = list(l.pieces)
            pcs[k] = P("sp", " ")
            yield _with(lines, i, _mod(l, pcs)), i, "typedef-close"


@op("V88", "NO_TAB_BF_TYPEDEF", (".h",))
def v88(lines, lo, hi):
    for i in range(lo, hi):
        l = lines[i]
        if l.kind == "tbend" and _idx(l, "align"):
            k = _idx(l, "align")[0]
            yield _with(lines, i, _mod(l, l.pieces[:k] + l.pieces[k + 1:])), i, "typedef-close"


@op("V89", "MISSING_TYPEDEF_ID", (".h",))
def v89(lines, lo, hi):
    for i in range(lo, hi):
        l = lines[i]
        if l.kind == "tbend" and _idx(l, "align"):
            # find the head of this block
            j = i
            while j > 0 and lines[j].kind != "tbhead":
                j -= 1
            yield _with(lines, i, _mod(l, [P("rbrace", "}"), P("semi", ";")])), j, "typedef-without-name"


# V90 (a tab between a parameter's type and its name) was dropped before freezing: the tool
# reports it at no site on the unchanged tree (DESIGN §9).


@op("V91", "TOO_MANY_TAB", (".c",))
def v91(lines, lo, hi):
    for i in range(lo, hi):
        l = lines[i]
        if l.kind == "simple" and i > 0 and lines[i - 1].kind == "ctrl" and l.depth == lines[i - 1].depth + 1:
            yield lines[:i + 1] + [l.copy()] + lines[i + 1:], i + 1, "second-statement-under-braceless"


# V13 (empty line before the 42 header) edits the preamble and is handled by the C02 driver.
