"""Reference model M of Norm-conforming files (DESIGN §4.1): a pushdown generator whose
transitions emit *blocks* of lines.  Lines are lists of tagged pieces so that the violation
catalogue (§4.2) and the differential properties (C17-C19) can address structured edit sites.

The model is deterministic: a history is a tuple of block ids; `replay(ftype, ids)` rebuilds
state and text, so workers only receive ids.
"""
from __future__ import annotations

from collections import namedtuple

from . import header42
from .lexref import line_width

P = namedtuple("P", "tag text")


def SP():
    return P("sp", " ")


def KW(t):
    return P("kw", t)


def ID(cls, name):
    return P("id:" + cls, name)


class Line:
    __slots__ = ("pieces", "kind", "depth")

    def __init__(self, pieces, kind, depth=0):
        self.pieces = list(pieces)
        self.kind = kind
        self.depth = depth

    def text(self):
        return "".join(p.text for p in self.pieces)

    def copy(self):
        return Line(list(self.pieces), self.kind, self.depth)

    def width(self):
        return line_width(self.text())


class Block:
    __slots__ = ("bid", "kind", "lines", "scope_after", "nstmts")

    def __init__(self, bid, kind, lines, nstmts=None):
        self.bid = bid
        self.kind = kind
        self.lines = lines
        self.nstmts = len(lines) if nstmts is None else nstmts


# ------------------------------------------------------------------ layout helpers

def tabs_to(col_from, col_to):
    """Minimal run of >=1 tabs from visual column col_from (1-based, next char) to col_to."""
    n = 0
    c = col_from
    while c < col_to:
        c = c + 4 - (c - 1) % 4
        n += 1
    if c != col_to or n == 0:
        return None
    return "\t" * n


def next_stop(col):
    return col + 4 - (col - 1) % 4


def type_pieces(words):
    out = []
    for i, w in enumerate(words.split(" ")):
        if i:
            out.append(SP())
        if w in ("struct", "union", "enum", "unsigned", "signed", "long", "short", "int", "char", "float",
                 "double", "void", "const", "static"):
            out.append(P("type", w))
        else:
            out.append(ID("typename", w))
    return out


def IND(d):
    return [P("ind", "\t")] * d if d else []


# ------------------------------------------------------------------ expressions (pieces)

def binop(a, op, b):
    return a + [SP(), P("binop", op), SP()] + b


def call(fname, args):
    out = [ID("func", fname), P("lp", "(")]
    for i, a in enumerate(args):
        if i:
            out += [P("comma", ","), SP()]
        out += a
    out.append(P("rp", ")"))
    return out


def V(name, cls="var"):
    return [ID(cls, name)]


def C(text):
    return [P("const", text)]


def CH(text):
    return [P("chr", text)]


def S(text):
    return [P("str", text)]


def paren(e):
    return [P("lp", "(")] + e + [P("rp", ")")]


def index(p, i):
    return p + [P("lb", "[")] + i + [P("rb", "]")]


def arrow(p, m):
    return p + [P("memb", "->"), ID("member", m)]


def dot(v, m):
    return v + [P("memb", "."), ID("member", m)]


def unary(op, e):
    return [P("unop", op)] + e


def deref(p):
    return [P("deref", "*")] + p


def cast(typ, stars, e):
    t = [P("lp", "(")] + type_pieces(typ)
    if stars:
        t += [SP(), P("castptr", "*" * stars)]
    return t + [P("rp", ")")] + e


def sizeof(inner):
    return [KW("sizeof"), P("lp", "(")] + inner + [P("rp", ")")]


def post(l, op):
    return l + [P("postop", op)]


def pre(op, l):
    return [P("preop", op)] + l


# ------------------------------------------------------------------ statements

def stmt_line(depth, pieces, kind):
    return Line(IND(depth) + pieces, kind, depth)


def assign(lval, op, rhs):
    return lval + [SP(), P("assign", op), SP()] + rhs + [P("semi", ";")]


def ret(e):
    if e is None:
        return [KW("return"), SP(), P("semi", ";")]
    return [KW("return"), SP(), P("lp", "(")] + e + [P("rp", ")"), P("semi", ";")]


def ctrl(kw, cond):
    return [KW(kw), SP(), P("lp", "(")] + cond + [P("rp", ")")]


SIMPLE = {
    # id -> builder of pieces; uses parameters n (int), p (char *), and functions
    "assign": lambda: assign(V("n"), "=", C("0")),
    "addassign": lambda: assign(V("n"), "+=", V("len")),
    "call": lambda: call("ft_putnbr", [V("n"), V("p")]) + [P("semi", ";")],
    "incr": lambda: post(V("n"), "++") + [P("semi", ";")],
    "derefassign": lambda: assign(deref(V("p")), "=", CH("'a'")),
    "idxassign": lambda: assign(index(V("p"), V("n")), "=", call("ft_f", [V("len")])),
    "binassign": lambda: assign(V("n"), "=", binop(V("len"), "*", C("2"))),
    "negassign": lambda: assign(V("n"), "=", unary("-", V("len"))),
}

CONDS = {
    "n": lambda: V("n"),
    "cmp": lambda: binop(V("n"), "<", V("len")),
    "and": lambda: binop(paren(binop(V("n"), ">", C("0"))), "&&", index(V("p"), V("n"))),
}

# function signatures of the BFS alphabet: id -> (prefix, type words, stars, name, ret kind)
SIGS = {
    "int": ("", "int", 0, "ft_count", "int"),
    "svoid": ("static ", "void", 0, "ft_fill", "void"),
    "charp": ("", "char", 1, "ft_dup", "ptr"),
    "ulong": ("", "unsigned long", 0, "ft_size", "int"),
    "noarg": ("", "int", 0, "ft_zero", "int"),
}

PARAMS_STD = [("int", 0, "n", ""), ("char", 1, "p", ""), ("int", 0, "len", "")]


def params_pieces(params):
    if not params:
        return [P("type", "void")]
    out = []
    for i, (typ, stars, name, arr) in enumerate(params):
        if i:
            out += [P("comma", ","), SP()]
        out += type_pieces(typ) + [P("psp", " ")]
        if stars:
            out.append(P("ptr", "*" * stars))
        out.append(ID("param", name))
        if arr:
            out.append(P("arr", arr))
    return out


def sig_line(prefix, typ, stars, name, params, proto_col=None):
    tp = type_pieces((prefix + typ).strip())
    w = len((prefix + typ).strip())
    if proto_col is None:
        al = "\t"
    else:
        al = tabs_to(w + 1, proto_col)
        if al is None:
            return None
    pieces = tp + [P("align", al)]
    if stars:
        pieces.append(P("ptr", "*" * stars))
    pieces += [ID("func", name), P("lp", "(")] + params_pieces(params) + [P("rp", ")")]
    return pieces


# local declarations: id -> (type words, stars, name, arr)
DECLS = {
    "int": ("int", 0, "i", ""),
    "charp": ("char", 1, "s", ""),
    "uint": ("unsigned int", 0, "count", ""),
    "tlist": ("t_list", 2, "lst", ""),
    "arr": ("char", 0, "buf", "[42]"),
    "struct": ("struct s_point", 0, "pt", ""),
}
LOCAL_NAMES = ["i", "tmp", "count", "j", "res", "k"]
DECL_NAMES2 = {"int": "j", "charp": "tmp", "uint": "total", "tlist": "cur", "arr": "tab", "struct": "pos"}


def decl_pieces(typ, stars, name, arr, col, depth=1, cls="local"):
    """`depth` tabs, type, tabs up to `col`, declarator.  Returns None when the type does not fit."""
    start = 1 + 4 * depth + len(typ)
    al = tabs_to(start, col)
    if al is None:
        return None
    out = IND(depth) + type_pieces(typ) + [P("align", al)]
    if stars:
        out.append(P("ptr", "*" * stars))
    out.append(ID(cls, name))
    if arr:
        out += [P("lb", "["), P("const", arr[1:-1]), P("rb", "]")]
    return out


def min_col(typ, depth):
    return next_stop(1 + 4 * depth + len(typ))


# ------------------------------------------------------------------ the .c model

Bounds = namedtuple("Bounds", "max_funcs max_decls max_body max_nest max_group max_comments max_typeblocks wide")
QUICK = Bounds(2, 2, 5, 2, 2, 1, 2, False)
THOROUGH = Bounds(2, 3, 7, 3, 2, 1, 2, True)

Top = namedtuple("Top", "phase gcount closed gcol nfuncs ncomments lastc")
Fn = namedtuple("Fn", "ret stage ndecl dcol nlines stack can_else nst names")
St = namedtuple("St", "ftype top fn extra")

PH_INC, PH_DEF, PH_GLOB, PH_PROTO, PH_FUNC = range(5)
PHASE_NAMES = ["includes", "defines", "globals", "protos", "funcs"]

INCLUDES = {"sys": ["<", "unistd.h", ">"], "loc": ['"', "libft.h", '"'], "sys2": ["<", "stdlib.h", ">"]}
DEFINES = {"num": ("BUFFER_SIZE", C("42")), "neg": ("ERR_CODE", [P("unop", "-")] + C("1")),
           "str": ("PROMPT", S('"minishell> "')), "chr": ("SEP", CH("':'")), "bare": ("FT_DEBUG", None),
           "mac": ("LIMIT", [ID("macro", "INT_MAX")])}
GLOBALS = {"sint": ("static int", 0, "g_count", "", C("0")), "cchar": ("const char", 1, "g_name", "", S('"ft"')),
           "scint": ("static const int", 0, "g_tab", "[3]", "{1, 2, 3}"), "sptr": ("static char", 1, "g_buf", "", None),
           "sarr": ("static char", 0, "g_arr", "[sizeof(int)]", None), "marr": ("static char", 0, "g_line", "[BUFFER_SIZE + 1]", None)}
PROTOS = {"int": ("", "int", 0, "ft_strlen2", [("char", 1, "s", "")]),
          "svoid": ("static ", "void", 0, "ft_swap", [("int", 1, "a", ""), ("int", 1, "b", "")]),
          "charp": ("", "char", 1, "ft_join", [("const char", 1, "a", ""), ("char", 0, "sep", ""), ("char", 1, "b", "")]),
          "void0": ("", "void", 0, "ft_init", [])}
COMMENTS = {"line": "// helper", "block": "/* helper */", "multi": None}


def initial(ftype, bounds):
    return St(ftype, Top(PH_INC, 0, True, 0, 0, 0, False), None, ())


def _cmt_lines(cid):
    if cid == "multi":
        return [Line([P("cmt", "/*")], "comment"), Line([P("cmt", "** about the next item")], "comment"),
                Line([P("cmt", "*/")], "comment")]
    return [Line([P("cmt", COMMENTS[cid])], "comment")]


def enabled(st, b):
    """Ordered list of (block, next_state) enabled in `st` under bounds `b` (simplest first)."""
    if st.ftype == ".h":
        return h_enabled(st, b)
    out = []
    top, fn = st.top, st.fn
    if fn is None:
        # ---------------- file level
        if top.phase == PH_FUNC and not top.closed:
            # just after a function: only an empty line (then another function) is possible
            if top.nfuncs < b.max_funcs:
                out.append((Block("empty", "empty", [Line([], "empty")]), st._replace(top=top._replace(closed=True))))
            return out
        if not top.closed:
            # inside a prelude group: another member, or the closing empty line
            if top.gcount < b.max_group:
                out += _group_members(st, top.phase, b)
            out.append((Block("empty", "empty", [Line([], "empty")]),
                        st._replace(top=top._replace(phase=top.phase + 1, gcount=0, closed=True, gcol=0, lastc=False))))
            return out
        # at a boundary
        if top.ncomments < b.max_comments and not top.lastc:
            for cid in COMMENTS:
                out.append((Block("cmt:" + cid, "comment", _cmt_lines(cid), nstmts=1),
                            st._replace(top=top._replace(ncomments=top.ncomments + 1, lastc=True))))
        if top.phase < PH_FUNC:
            for ph in range(top.phase, PH_FUNC):
                out += _group_members(st._replace(top=top._replace(phase=ph, gcount=0, gcol=0)), ph, b)
        if top.nfuncs < b.max_funcs:
            for sid, (prefix, typ, stars, name, rk) in SIGS.items():
                name = f"{name}{top.nfuncs}" if top.nfuncs else name
                lines = [Line(sig_line(prefix, typ, stars, name, PARAMS_STD if sid != "noarg" else []), "funcsig"),
                         Line([P("lbrace", "{")], "lbrace")]
                nfn = Fn(rk, "decls", 0, 0, 0, (), False, 0, ())
                out.append((Block("fsig:" + sid, "funcsig", lines),
                            st._replace(top=top._replace(phase=PH_FUNC, closed=False, lastc=False, gcol=0, gcount=0),
                                        fn=nfn)))
        return out
    # ---------------- inside a function body
    depth = 1 + len(fn.stack)
    room = b.max_body - fn.nlines
    if fn.stage == "decls":
        if fn.ndecl < b.max_decls and room >= 3:
            for did, (typ, stars, _nm, arr) in DECLS.items():
                name = LOCAL_NAMES[fn.ndecl % len(LOCAL_NAMES)]
                cols = [fn.dcol] if fn.dcol else [min_col(typ, 1), min_col(typ, 1) + 4][:2 if b.wide else 1]
                for ci, col in enumerate(cols):
                    pcs = decl_pieces(typ, stars, name, arr, col)
                    if pcs is None:
                        continue
                    pcs.append(P("semi", ";"))
                    bid = f"decl:{did}" + ("+" if ci else "")
                    out.append((Block(bid, "decl", [Line(pcs, "decl", 1)]),
                                st._replace(fn=fn._replace(ndecl=fn.ndecl + 1, dcol=col, nlines=fn.nlines + 1))))
            # a static/const local with an initialiser
            if True:
                typ = "static int"
                cols = [fn.dcol] if fn.dcol else [min_col(typ, 1)]
                for col in cols:
                    pcs = decl_pieces(typ, 0, LOCAL_NAMES[fn.ndecl % len(LOCAL_NAMES)], "", col)
                    if pcs is not None:
                        pcs += [SP(), P("assign", "="), SP()] + C("0") + [P("semi", ";")]
                        out.append((Block("decl:sinit", "decl", [Line(pcs, "decl", 1)]),
                                    st._replace(fn=fn._replace(ndecl=fn.ndecl + 1, dcol=col, nlines=fn.nlines + 1))))
        if fn.ndecl > 0:
            if room >= 2:
                out.append((Block("empty", "empty", [Line([], "empty")]),
                            st._replace(fn=fn._replace(stage="stmts", nlines=fn.nlines + 1))))
            return out
        # no declaration: statements may start directly
        fn = fn._replace(stage="stmts")
        st = st._replace(fn=fn)
    # statements
    inwhile = any(k[0] == "while" for k in fn.stack)

    def nxt(**kw):
        d = dict(nlines=fn.nlines + 1, can_else=False, nst=fn.nst + 1)
        d.update(kw)
        return st._replace(fn=fn._replace(**d))

    if room >= 1:
        for sid, mk in SIMPLE.items():
            out.append((Block("s:" + sid, "simple", [stmt_line(depth, mk(), "simple")]), nxt()))
        r = ret(None) if fn.ret == "void" else ret(V("n") if fn.ret == "int" else V("p"))
        out.append((Block("s:return", "simple", [stmt_line(depth, r, "return")]), nxt()))
        if room >= 2:
            # statements split over two physical lines (the Norm: following lines indented, operators and
            # commas placed as the examples of the Norm do: comma at the end, operator at the start)
            c1 = [ID("func", "ft_putnbr"), P("lp", "("), ID("var", "n"), P("comma", ",")]
            c2 = [ID("var", "p"), P("rp", ")"), P("semi", ";")]
            out.append((Block("w:call", "simple", [stmt_line(depth, c1, "wsimple"), Line(IND(depth + 1) + c2, "cont", depth)], nstmts=1),
                        nxt(nlines=fn.nlines + 2)))
            if fn.ret == "int":
                r1 = [KW("return"), SP(), P("lp", "("), ID("var", "n")]
                r2 = [P("binop", "+"), SP(), ID("var", "len"), P("rp", ")"), P("semi", ";")]
                out.append((Block("w:return", "simple", [stmt_line(depth, r1, "wreturn"), Line(IND(depth + 1) + r2, "cont", depth)],
                                  nstmts=1), nxt(nlines=fn.nlines + 2)))
        if inwhile:
            out.append((Block("s:break", "simple", [stmt_line(depth, [KW("break"), SP(), P("semi", ";")], "jump")]), nxt()))
            out.append((Block("s:continue", "simple",
                              [stmt_line(depth, [KW("continue"), SP(), P("semi", ";")], "jump")]), nxt()))
    heads = [("if", "if")]
    if fn.can_else:
        heads += [("elif", "else if"), ("else", "else")]
    heads.append(("while", "while"))
    for hid, kw in heads:
        for cid, mk in (list(CONDS.items()) if hid in ("if", "while") else [("n", CONDS["n"])] if hid == "elif" else [(None, None)]):
            if hid == "else":
                head = [KW("else")]
            elif hid == "elif":
                head = [KW("else"), SP()] + ctrl("if", mk())
            else:
                head = ctrl(kw, mk())
            tag = hid + (":" + cid if cid and (hid in ("if", "while")) else "")
            # braced: head line + '{' line
            if len(fn.stack) < b.max_nest and room >= 4:
                lines = [stmt_line(depth, head, "ctrl"), stmt_line(depth, [P("lbrace", "{")], "lbrace")]
                out.append((Block(tag + "{", "ctrl-open", lines),
                            nxt(nlines=fn.nlines + 2, stack=fn.stack + ((hid,),))))
            # brace-less: head line + one simple statement, one block
            if room >= 2 and cid in (None, "n", "cmp"):
                for sid in (("assign",) if cid in (None, "n") else ("call",)):
                    lines = [stmt_line(depth, head, "ctrl"), stmt_line(depth + 1, SIMPLE[sid](), "simple")]
                    out.append((Block(f"{tag}1:{sid}", "ctrl-single", lines),
                                nxt(nlines=fn.nlines + 2, can_else=hid in ("if", "elif"))))
    if room >= 2:
        # a loop with an empty body: the lone ';' on the next line belongs to the same statement
        lines = [stmt_line(depth, ctrl("while", index(V("p"), post(V("n"), "++"))), "ctrl"),
                 Line(IND(depth + 1) + [P("semi", ";")], "cont", depth)]
        out.append((Block("while:empty-body", "ctrl-single", lines, nstmts=1), nxt(nlines=fn.nlines + 2)))
    for hid, kw in (("if", "if"), ("while", "while")):
        h1 = [KW(kw), SP(), P("lp", "(")] + binop(V("n"), ">", C("0"))
        h2 = [P("binop", "&&"), SP()] + index(V("p"), V("n")) + [P("rp", ")")]
        if len(fn.stack) < b.max_nest and room >= 5:
            lines = [stmt_line(depth, h1, "wctrl"), Line(IND(depth + 1) + h2, "cont", depth), stmt_line(depth, [P("lbrace", "{")], "lbrace")]
            out.append((Block(f"{hid}:w{{", "ctrl-open", lines, nstmts=2), nxt(nlines=fn.nlines + 3, stack=fn.stack + ((hid,),))))
        if room >= 3:
            lines = [stmt_line(depth, h1, "wctrl"), Line(IND(depth + 1) + h2, "cont", depth), stmt_line(depth + 1, SIMPLE["call"](), "simple")]
            out.append((Block(f"{hid}:w1:call", "ctrl-single", lines, nstmts=2), nxt(nlines=fn.nlines + 3, can_else=hid == "if")))
    if fn.stack:
        if fn.nst > 0 or True:
            kind = fn.stack[-1][0]
            # a braced block must hold at least one statement: tracked through `extra`
            if st.extra and st.extra[-1] > 0:
                out.append((Block("}", "ctrl-close", [stmt_line(depth - 1, [P("rbrace", "}")], "rbrace")]),
                            _pop_extra(nxt(stack=fn.stack[:-1], can_else=kind in ("if", "elif")))))
    else:
        if fn.nst > 0:
            out.append((Block("fend", "funcend", [Line([P("rbrace", "}")], "rbrace")]),
                        st._replace(fn=None, top=st.top._replace(nfuncs=st.top.nfuncs + 1, closed=False), extra=())))
    # maintain `extra` = number of statements in each open braced block
    res = []
    for blk, ns in out:
        if ns.fn is not None and blk.kind != "ctrl-close":
            ex = st.extra
            if blk.kind in ("simple", "ctrl-single"):
                ex = ex[:-1] + (ex[-1] + 1,) if ex else ex
            elif blk.kind == "ctrl-open":
                ex = (ex[:-1] + (ex[-1] + 1,) if ex else ex) + (0,)
            ns = ns._replace(extra=ex)
        res.append((blk, ns))
    return res


def _pop_extra(ns):
    return ns._replace(extra=ns.extra[:-1])


def _group_members(st, ph, b):
    top = st.top
    out = []

    def adv(col=0):
        return st._replace(top=top._replace(phase=ph, gcount=top.gcount + 1, closed=False, gcol=col, lastc=False))

    if ph == PH_INC:
        for iid, (o, path, c) in INCLUDES.items():
            if top.gcount and iid == "sys":
                continue
            pcs = [P("hash", "#"), P("dir", "include"), SP(), P("incpath", o + path + c)]
            out.append((Block("inc:" + iid, "include", [Line(pcs, "include")]), adv()))
    elif ph == PH_DEF:
        for did, (name, val) in DEFINES.items():
            if top.gcount and did == "num":
                continue
            pcs = [P("hash", "#"), P("dir", "define"), SP(), ID("macro", name + ("_B" if top.gcount else ""))]
            if val is not None:
                pcs += [SP()] + val
            out.append((Block("def:" + did, "define", [Line(pcs, "define")]), adv()))
        out += [(blk, adv()) for blk in _cond_blocks(0, "_B" if top.gcount else "")]
    elif ph == PH_GLOB:
        for gid, (typ, stars, name, arr, init) in GLOBALS.items():
            if top.gcount and gid == "sint":
                continue
            cols = [top.gcol] if top.gcol else [min_col(typ, 0), min_col(typ, 0) + 4][:2 if b.wide else 1]
            for ci, col in enumerate(cols):
                pcs = decl_pieces(typ, stars, name + ("_b" if top.gcount else ""), arr, col, depth=0, cls="global")
                if pcs is None:
                    continue
                if init is not None:
                    pcs += [SP(), P("assign", "="), SP()]
                    if isinstance(init, str):
                        pcs += [P("lbrace", "{")] + C("1") + [P("comma", ","), SP()] + C("2") + \
                               [P("comma", ","), SP()] + C("3") + [P("rbrace", "}")]
                    else:
                        pcs += init
                pcs.append(P("semi", ";"))
                out.append((Block(f"glob:{gid}" + ("+" if ci else ""), "global", [Line(pcs, "global")]), adv(col)))
    elif ph == PH_PROTO:
        for pid, (prefix, typ, stars, name, params) in PROTOS.items():
            if top.gcount and pid == "int":
                continue
            w = len((prefix + typ).strip())
            cols = [top.gcol] if top.gcol else [next_stop(w + 1), next_stop(w + 1) + 4][:2 if b.wide else 1]
            for ci, col in enumerate(cols):
                pcs = sig_line(prefix, typ, stars, name + ("_b" if top.gcount else ""), params, proto_col=col)
                if pcs is None:
                    continue
                pcs.append(P("semi", ";"))
                out.append((Block(f"proto:{pid}" + ("+" if ci else ""), "proto", [Line(pcs, "proto")]), adv(col)))
    return out


def _cond_blocks(level, sfx):
    """Conditional-compilation blocks (directives inside #if/#ifdef/#ifndef are indented by one blank per level)."""
    def d(lvl, name, rest=(), kind="cond"):
        pcs = [P("hash", "#")] + ([P("pind", " " * lvl)] if lvl else []) + [P("dir", name)]
        for r in rest:
            pcs += [SP()] + r
        return Line(pcs, kind)
    m = [ID("macro", "CHUNK_SIZE" + sfx)]
    b1 = [d(level, "ifndef", [m]), d(level + 1, "define", [m, C("64")], "define"), d(level, "endif")]
    dbg = [ID("macro", "FT_VERBOSE" + sfx)]
    b2 = [d(level, "ifdef", [dbg]), d(level + 1, "define", [[ID("macro", "LOG_LEVEL" + sfx)], C("2")], "define"), d(level, "else"),
          d(level + 1, "define", [[ID("macro", "LOG_LEVEL" + sfx)], C("0")], "define"), d(level, "endif")]
    return [Block("def:ifndef-block", "define", b1), Block("def:ifdef-else-block", "define", b2)]


# ------------------------------------------------------------------ the .h model

TYPEBLOCKS = ("struct", "union", "enum", "alias", "plainstruct")


def h_enabled(st, b):
    """Header files: phases 0 includes, 1 defines, 2 typeblocks, 3 protos (inside the guard)."""
    out = []
    top = st.top
    if not top.closed:
        if top.gcount < b.max_group and top.phase in (0, 1, 3):
            out += _h_members(st, top.phase, b)
        out.append((Block("empty", "empty", [Line([], "empty")]),
                    st._replace(top=top._replace(phase=top.phase + (0 if top.phase == 2 else 1), gcount=0,
                                                 closed=True, lastc=False))))
        return out
    if top.ncomments < b.max_comments and not top.lastc:
        for cid in ("line", "block"):
            out.append((Block("cmt:" + cid, "comment", _cmt_lines(cid), nstmts=1),
                        st._replace(top=top._replace(ncomments=top.ncomments + 1, lastc=True))))
    for ph in range(top.phase, 4):
        if ph == 2 and top.nfuncs >= b.max_typeblocks:
            continue
        out += _h_members(st._replace(top=top._replace(phase=ph, gcount=0)), ph, b)
    return out


def _h_members(st, ph, b):
    top = st.top
    out = []

    def adv(**kw):
        d = dict(phase=ph, gcount=top.gcount + 1, closed=False, lastc=False)
        d.update(kw)
        return st._replace(top=top._replace(**d))

    hcol = top.gcol
    if ph == 0:
        for iid, (o, path, c) in INCLUDES.items():
            if top.gcount and iid == "sys":
                continue
            pcs = [P("hash", "#"), P("pind", " "), P("dir", "include"), SP(), P("incpath", o + path + c)]
            out.append((Block("inc:" + iid, "include", [Line(pcs, "include")]), adv()))
    elif ph == 1:
        for did, (name, val) in DEFINES.items():
            if val is None or (top.gcount and did == "num"):
                continue
            pcs = [P("hash", "#"), P("pind", " "), P("dir", "define"), SP(),
                   ID("macro", name + ("_B" if top.gcount else "")), SP()] + val
            out.append((Block("def:" + did, "define", [Line(pcs, "define")]), adv()))
        out += [(blk, adv()) for blk in _cond_blocks(1, "_B" if top.gcount else "")]
    elif ph == 2:
        n = top.nfuncs
        cols = [hcol] if hcol else [9, 13][:2 if b.wide else 1]
        for tb in TYPEBLOCKS:
            for ci, col in enumerate(cols):
                lines = _typeblock(tb, n, col)
                if lines is None:
                    continue
                out.append((Block(f"tb:{tb}" + ("+" if ci else ""), "typeblock", lines),
                            adv(nfuncs=n + 1, gcol=col if tb != "plainstruct" else hcol)))
    elif ph == 3:
        for pid, (prefix, typ, stars, name, params) in PROTOS.items():
            if prefix or (top.gcount and pid == "int"):
                continue
            w = len(typ)
            cols = [hcol] if hcol else [next_stop(w + 1), next_stop(w + 1) + 4][:2 if b.wide else 1]
            for ci, col in enumerate(cols):
                pcs = sig_line("", typ, stars, name + ("_b" if top.gcount else ""), params, proto_col=col)
                if pcs is None:
                    continue
                pcs.append(P("semi", ";"))
                out.append((Block(f"proto:{pid}" + ("+" if ci else ""), "proto", [Line(pcs, "proto")]),
                            adv(gcol=col)))
    return out


TB_NAMES = ["point", "node"]


def _typeblock(tb, n, col):
    nm = TB_NAMES[n % len(TB_NAMES)]
    closing_al = tabs_to(2, col)
    if tb == "alias":
        typ = "unsigned int"
        al = tabs_to(len("typedef " + typ) + 1, col)
        if al is None:
            return None
        return [Line([P("type", "typedef"), SP()] + type_pieces(typ) + [P("align", al), ID("typedef", "t_" + nm),
                      P("semi", ";")], "typedef")]
    fields = [("int", 0, "x", ""), ("char", 1, "name", ""), ("struct s_" + nm, 1, "next", "")]
    fcol = 4 + next_stop(1 + len("struct s_" + nm))
    flines = []
    if tb == "enum":
        flines = [Line(IND(1) + [ID("enumr", nm.upper() + "_A"), P("comma", ",")], "enumr", 1),
                  Line(IND(1) + [ID("enumr", nm.upper() + "_B"), SP(), P("assign", "="), SP()] + C("4")
                       + [P("comma", ",")], "enumr", 1),
                  Line(IND(1) + [ID("enumr", nm.upper() + "_C")], "enumr", 1)]
    else:
        for typ, stars, name, arr in (fields if tb != "union" else fields[:2]):
            pcs = decl_pieces(typ, stars, name, arr, fcol, depth=1, cls="member")
            flines.append(Line(pcs + [P("semi", ";")], "field", 1))
    kw = {"struct": "struct", "union": "union", "enum": "enum", "plainstruct": "struct"}[tb]
    pfx = {"struct": "s_", "union": "u_", "enum": "e_", "plainstruct": "s_"}[tb]
    cls = {"struct": "struct", "union": "union", "enum": "enum", "plainstruct": "struct"}[tb]
    if tb == "plainstruct":
        head = [P("type", kw), SP(), ID(cls, pfx + nm + "2")]
        tail = [P("rbrace", "}"), P("semi", ";")]
    else:
        if closing_al is None:
            return None
        head = [P("type", "typedef"), SP(), P("type", kw), SP(), ID(cls, pfx + nm)]
        tail = [P("rbrace", "}"), P("align", closing_al), ID("typedef", "t_" + nm), P("semi", ";")]
    return [Line(head, "tbhead"), Line([P("lbrace", "{")], "lbrace")] + flines + [Line(tail, "tbend")]


# ------------------------------------------------------------------ completion / rendering

def completion(st):
    """Lines that turn the history into a complete conforming file."""
    lines = []
    if st.ftype == ".h":
        top = st.top
        if not top.closed:
            lines.append(Line([], "empty"))
        if top.lastc and top.closed:
            # a comment directly before #endif: give it something to describe
            pcs = sig_line("", "int", 0, "ft_last", [("int", 0, "n", "")], proto_col=top.gcol or 5)
            lines.append(Line(pcs + [P("semi", ";")], "proto"))
            lines.append(Line([], "empty"))
        lines.append(Line([P("hash", "#"), P("dir", "endif")], "endif"))
        return lines
    fn, top = st.fn, st.top
    if fn is not None:
        if fn.stage == "decls" and fn.ndecl > 0:
            lines.append(Line([], "empty"))
        depth = 1 + len(fn.stack)
        extra = list(st.extra)
        need_stmt = (fn.stage == "decls") or (extra and extra[-1] == 0) or (not fn.stack and fn.nst == 0)
        if need_stmt:
            lines.append(stmt_line(depth, SIMPLE["assign"](), "simple"))
        for d in range(len(fn.stack), 0, -1):
            lines.append(stmt_line(d, [P("rbrace", "}")], "rbrace"))
        lines.append(Line([P("rbrace", "}")], "rbrace"))
        return lines
    if top.nfuncs == 0 or top.lastc or (top.phase == PH_FUNC and top.closed):
        if not top.closed:
            lines.append(Line([], "empty"))
        lines.append(Line(sig_line("", "int", 0, "main", []), "funcsig"))
        lines.append(Line([P("lbrace", "{")], "lbrace"))
        lines.append(stmt_line(1, ret(C("0")), "return"))
        lines.append(Line([P("rbrace", "}")], "rbrace"))
    return lines


def guard_name(fname):
    return fname.upper().replace(".", "_")


def preamble(ftype, fname):
    """Header + (for .h) the guard opening.  Returns list of Lines."""
    lines = [Line([P("hdr", h)], "hdr42") for h in header42.header_lines(fname)]
    lines.append(Line([], "empty"))
    if ftype == ".h":
        g = guard_name(fname)
        lines.append(Line([P("hash", "#"), P("dir", "ifndef"), SP(), ID("guard", g)], "ifndef"))
        lines.append(Line([P("hash", "#"), P("pind", " "), P("dir", "define"), SP(), ID("guard", g)], "guarddef"))
        lines.append(Line([], "empty"))
    return lines


def render(lines):
    return "".join(l.text() + "\n" for l in lines)


class Replay:
    """Result of replaying a history of block ids."""
    __slots__ = ("st", "lines", "blocks", "block_first_line", "states")


def replay(ftype, ids, bounds, fname=None, with_preamble=True):
    fname = fname or ("test" + ftype)
    st = initial(ftype, bounds)
    r = Replay()
    lines = preamble(ftype, fname) if with_preamble else []
    r.blocks = []
    r.block_first_line = []
    r.states = [st]
    for bid in ids:
        for blk, ns in enabled(st, bounds):
            if blk.bid == bid:
                break
        else:
            raise KeyError(f"block {bid!r} not enabled after {ids[:len(r.blocks)]}")
        r.block_first_line.append(len(lines) + 1)
        lines.extend(blk.lines)
        r.blocks.append(blk)
        st = ns
        r.states.append(st)
    r.st = st
    r.lines = lines
    return r


def state_key(st):
    """The part of the model state its future depends on (counts that only gate on >0 are capped)."""
    fn = st.fn
    if fn is not None:
        fn = fn._replace(nst=min(fn.nst, 1), names=())
    return (st.ftype, st.top, fn, tuple(min(x, 1) for x in st.extra))


def accepting(st):
    if st.ftype == ".h":
        return st.top.closed
    return st.fn is None and st.top.nfuncs >= 1 and st.top.phase == PH_FUNC and not st.top.closed


def expected_scope(st):
    """Scope chain (innermost first) the implementation must report after the last block."""
    if st.ftype == ".h" or st.fn is None:
        return ("GlobalScope",)
    return ("ControlStructure",) * len(st.fn.stack) + ("Function", "GlobalScope")
