"""Independent reference scanner (DESIGN §4.9/§4.10): visual columns, alignment of the
produced tokens with the raw text under the three documented normalisations.

It knows nothing about how the lexer recognises tokens: it only walks the raw
text and the token texts together.
"""
from __future__ import annotations

TRIGRAPHS = {"??<": "{", "??>": "}", "??(": "[", "??)": "]", "??=": "#", "??/": "\\",
             "??'": "^", "??!": "|", "??-": "~"}
DIGRAPHS = {"<%": "{", "%>": "}", "<:": "[", ":>": "]", "%:": "#"}

TEXTUAL = ("COMMENT", "MULT_COMMENT", "STRING", "CHAR_CONST")
WS = {"SPACE": " ", "TAB": "\t", "NEWLINE": "\n"}


def viscol_after(col, ch):
    """Visual column (1-based) after a character starting at column `col`."""
    if ch == "\t":
        return col + 4 - (col - 1) % 4
    return col + 1


def line_width(line):
    """Displayed width of a line (no NL), tabs as 4-column tab stops."""
    col = 1
    for ch in line:
        col = viscol_after(col, ch)
    return col - 1


_spelling = None


def spelling_table():
    """type -> unique spelling for value-less tokens; injectivity asserted."""
    global _spelling
    if _spelling is None:
        from norminette.lexer.dictionary import keywords, operators, brackets

        t = {}
        for table in (keywords, operators, brackets):
            for sp, ty in table.items():
                assert ty not in t, f"token type {ty} has two spellings"
                t[ty] = sp
        for ty, sp in WS.items():
            assert ty not in t
            t[ty] = sp
        _spelling = t
    return _spelling


def token_text(tok):
    if tok.value is not None:
        return tok.value
    return spelling_table().get(tok.type)


class Cursor:
    __slots__ = ("text", "i", "line", "col")

    def __init__(self, text):
        self.text = text
        self.i = 0
        self.line = 1
        self.col = 1

    def adv(self, n):
        for _ in range(n):
            ch = self.text[self.i]
            if ch == "\n":
                self.line += 1
                self.col = 1
            else:
                self.col = viscol_after(self.col, ch)
            self.i += 1

    def splice_len(self):
        t, i = self.text, self.i
        if t.startswith("\\\n", i):
            return 2
        if t.startswith("??/\n", i):
            return 4
        return 0


def align(text, tokens, bad_positions, count_mode=False, want=None):
    """Walk raw text and tokens together (with backtracking over the one ambiguity: a raw
    backslash-newline may be a splice or, inside a literal, two characters of the token).

    bad_positions: set of (line, col) carried by BAD_LEXEME diagnostics.
    Returns dict(ok, why, expected=[(line,col)...], spans, inner_splice[, at, tchar, trailing]).
    """
    n = len(text)
    texts = []
    for ti, tok in enumerate(tokens):
        tt = token_text(tok)
        if tt is None or tt == "":
            return {"ok": False, "why": f"token {ti} {tok.type} has no text", "expected": []}
        texts.append(tt)
    nbad = len(bad_positions)
    bad_positions = set(bad_positions)
    cur = Cursor(text)
    expected, inner_splice, spans = [], [], []
    bad_used = set()
    ti, k, first = 0, 0, True
    alts = []          # saved choice points
    best = None        # deepest failure

    def fail(why, **kw):
        nonlocal best
        d = {"ok": False, "why": why, "expected": list(expected), "spans": [list(x) for x in spans],
             "at": cur.i}
        d.update(kw)
        if best is None or d["at"] >= best["at"]:
            best = d

    def save(alt):
        alts.append((alt, ti, k, first, cur.i, cur.line, cur.col, len(expected),
                     [list(x) for x in spans], list(inner_splice), set(bad_used)))

    while True:
        failed = False
        if ti < len(tokens):
            if k == 0 and first and len(spans) == ti:
                inner_splice.append(False)
                spans.append([cur.i, cur.i])
            tt = texts[ti]
            c = tt[k]
            pos = (cur.line, cur.col)
            sl = cur.splice_len()
            m = _matches(cur, c, tokens[ti].type not in TEXTUAL) if cur.i < n else 0
            choice = None
            if count_mode and first and cur.i < n and len(bad_used) < nbad and not sl:
                save("bad")
            # a backslash-newline between tokens is a splice, never an unmatched character
            if (not count_mode) and first and cur.i < n and pos in bad_positions and pos not in bad_used and not sl:
                choice = "bad"
            elif sl and m:
                save("literal")
                choice = "splice"
            elif sl:
                choice = "splice"
            elif m:
                choice = "literal"
            elif (tokens[ti].type == "MULT_COMMENT" and c == " " and cur.i < n and text[cur.i] == "\t"):
                choice = "tab"
            else:
                if cur.i >= n:
                    fail(f"token {ti} {tokens[ti].type}: input exhausted at char {k} of {tt!r}", tchar=k)
                else:
                    fail(f"token {ti} {tokens[ti].type}: char {c!r} of {tt!r} does not match raw "
                         f"{text[cur.i:cur.i + 3]!r} at {pos}", tchar=k)
                failed = True
            if (not failed and want is not None and first and choice in ("literal", "tab")
                    and tuple(want[ti]) != pos):
                fail(f"token {ti} {tokens[ti].type} reported at {tuple(want[ti])}, this alignment puts it at {pos}",
                     tchar=k, posfail=True)
                failed = True
            if not failed:
                ti, k, first, failed = _step(choice, cur, text, tokens, texts, ti, k, first, expected, spans,
                                             inner_splice, bad_used, fail)
        else:
            # trailing: only splices and bad lexemes may remain
            if cur.i >= n:
                if count_mode and len(bad_used) == nbad:
                    return {"ok": True, "why": "", "expected": expected, "inner_splice": inner_splice,
                            "spans": spans, "bad_at": sorted(bad_used)}
                if bad_used != bad_positions:
                    fail(f"BAD_LEXEME at {sorted(bad_positions - bad_used)} points at no skipped character",
                         trailing=True, tchar=0)
                    failed = True
                else:
                    return {"ok": True, "why": "", "expected": expected, "inner_splice": inner_splice,
                            "spans": spans}
            else:
                sl = cur.splice_len()
                pos = (cur.line, cur.col)
                if sl:
                    cur.adv(sl)
                elif (pos in bad_positions and pos not in bad_used) or (count_mode and len(bad_used) < nbad):
                    bad_used.add(pos)
                    cur.adv(1)
                else:
                    fail(f"raw text {text[cur.i:cur.i + 5]!r} at {pos} is covered by no token and no BAD_LEXEME",
                         trailing=True, tchar=0)
                    failed = True
        while failed:
            if not alts:
                return best
            (alt, ti, k, first, i, line, col, ne, sp, isp, bu) = alts.pop()
            cur.i, cur.line, cur.col = i, line, col
            del expected[ne:]
            spans[:] = sp
            inner_splice[:] = isp
            bad_used.clear()
            bad_used.update(bu)
            ti, k, first, failed = _step(alt, cur, text, tokens, texts, ti, k, first, expected, spans,
                                         inner_splice, bad_used, fail)


def _step(choice, cur, text, tokens, texts, ti, k, first, expected, spans, inner_splice, bad_used, fail):
    """Apply one matching step; returns (ti, k, first, failed)."""
    pos = (cur.line, cur.col)
    tt = texts[ti]
    if choice == "bad":
        bad_used.add(pos)
        cur.adv(1)
        return ti, k, first, False
    if choice == "splice":
        cur.adv(cur.splice_len())
        if not first:
            inner_splice[ti] = True
        return ti, k, first, False
    if choice == "literal":
        m = _matches(cur, tt[k], tokens[ti].type not in TEXTUAL)
        if first:
            expected.append(pos)
            spans[ti][0] = cur.i
            first = False
        cur.adv(m)
        spans[ti][1] = cur.i
        k += 1
    elif choice == "tab":
        width = 4 - (cur.col - 1) % 4
        if tt[k:k + width] != " " * width:
            fail(f"token {ti}: tab at {pos} expanded to a wrong number of spaces", tchar=k)
            return ti, k, first, True
        if first:
            expected.append(pos)
            spans[ti][0] = cur.i
            first = False
        cur.adv(1)
        spans[ti][1] = cur.i
        k += width
    if k >= len(tt):
        return ti + 1, 0, True, False
    return ti, k, first, False


def _matches(cur, c, digraphs=True):
    """Number of raw characters that spell `c` at the cursor (0 = no match).  Digraphs are punctuator spellings:
    inside a comment or a literal `<%` is two characters of text, not a spelling of `{` (trigraphs are replaced
    everywhere)."""
    t, i = cur.text, cur.i
    if i < len(t) and t[i] == c:
        # a literal match -- unless the raw text is a trigraph for another character
        # (`??/` always reads as a backslash, never as three characters)
        return 1
    tri = t[i:i + 3]
    if TRIGRAPHS.get(tri) == c:
        return 3
    di = t[i:i + 2]
    if digraphs and DIGRAPHS.get(di) == c:
        return 2
    return 0


def raw_features(raw):
    """Input-side features of the raw spelling of one token (used in finding signatures)."""
    f = []
    if "\\\n" in raw or "??/\n" in raw:
        f.append("splice")
    if "\\\t" in raw or "??/\t" in raw:
        f.append("backslash-tab")
    elif "\t" in raw:
        f.append("tab")
    if any(t in raw for t in TRIGRAPHS):
        f.append("trigraph")
    if any(d in raw for d in DIGRAPHS):
        f.append("digraph")
    return "+".join(f) or "plain"
