"""The 42 'stdheader' template (DESIGN §4.13), written from the vim/emacs plugin layout:
11 lines of exactly 80 columns."""
from __future__ import annotations

LOGO = [
    "        :::      ::::::::",
    "      :+:      :+:    :+:",
    "    +:+ +:+         +:+  ",
    "  +#+  +:+       +#+     ",
    "+#+#+#+#+#+   +#+        ",
    "     #+#    #+#          ",
    "    ###   ########.fr    ",
]


def _line(left, right):
    """/*   <left padded> <right>   */ -- 80 columns."""
    inner = 80 - 2 * 5          # between '/*   ' and '   */'
    pad = inner - len(left) - len(right)
    if pad < 1:
        left = left[: inner - len(right) - 1]
        pad = inner - len(left) - len(right)
    return "/*   " + left + " " * pad + right + "   */"


def header_lines(filename="main.c", login="marvin", domain="student.42.fr",
                 created="2020/01/01 00:00:00", updated="2020/01/01 00:00:00", updater=None):
    updater = updater or login
    frame = "/* " + "*" * 74 + " */"
    blank = "/*" + " " * 76 + "*/"
    lines = [
        frame,
        blank,
        _line("", LOGO[0]),
        _line(filename, LOGO[1]),
        _line("", LOGO[2]),
        _line(f"By: {login} <{login}@{domain}>", LOGO[3]),
        _line("", LOGO[4]),
        _line(f"Created: {created} by {login}", LOGO[5]),
        _line(f"Updated: {updated} by {updater}", LOGO[6]),
        blank,
        frame,
    ]
    return lines


def header_text(filename="main.c", **kw):
    return "\n".join(header_lines(filename, **kw)) + "\n"


HEADER_NLINES = 11
