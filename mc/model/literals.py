"""C11 §6.4.4 literal grammar written from the standard (plus the extensions the property lists),
used as a sandwich (DESIGN §4.11): a certainly-valid set and certainly-malformed families.

Every generator yields (production_label, literal_text).  Labels are input-side: they name the
grammar production and the digit/suffix classes used, and are what finding signatures are built from.
"""
from __future__ import annotations

import itertools


def _strings(pool, lo, hi):
    for n in range(lo, hi + 1):
        for t in itertools.product(pool, repeat=n):
            yield "".join(t)


def _case_combos(parts):
    """All upper/lower case spellings where each part is cased as a whole ('ll' never mixed)."""
    outs = [""]
    for p in parts:
        outs = [o + v for o in outs for v in (p.lower(), p.upper())]
    return outs


def int_suffixes():
    s = [""]
    s += _case_combos(["u"]) + _case_combos(["l"]) + _case_combos(["ll"])
    s += _case_combos(["u", "l"]) + _case_combos(["l", "u"])
    s += _case_combos(["u", "ll"]) + _case_combos(["ll", "u"])
    s += _case_combos(["z"]) + _case_combos(["u", "z"]) + _case_combos(["z", "u"])
    s += _case_combos(["wb"]) + _case_combos(["u", "wb"]) + _case_combos(["wb", "u"])
    s += _case_combos(["i64"]) + _case_combos(["u", "i64"])
    return s


FLOAT_SUFFIXES = ["", "f", "F", "l", "L", "d", "D"]


def _dclass(ch):
    if ch in "01234567":
        return "oct"
    if ch in "89":
        return "dec"
    if ch in "bB":
        return "b"
    if ch in "eE":
        return "e"
    if ch in "xX":
        return "x"
    return "hex"


def valid_integers(n, hexn, hex_extra_pool="", hex_extra_len=0):
    """n = max digit-string length for decimal/octal/binary; hexn for hex."""
    sufs = int_suffixes()
    for first in "1789":
        for rest in _strings("01789", 0, n - 1):
            for s in sufs:
                yield (f"int.dec", first + rest + s)
    for rest in _strings("017", 0, n - 1):
        for s in sufs:
            yield ("int.oct", "0" + rest + s)
    for x in "xX":
        for d in _strings("09abefABEF", 1, hexn):
            cls = f"first={_dclass(d[0])}" + (f",second={_dclass(d[1])}" if len(d) > 1 else "")
            for s in sufs:
                # a hex constant ending in e/E followed by nothing is fine; `0x1e` + suffix `+` is M9's business
                yield (f"int.hex[{cls}]", "0" + x + d + s)
    for b in "bB":
        for d in _strings("01", 1, n):
            for s in sufs:
                yield ("int.bin", "0" + b + d + s)
    if hex_extra_len > hexn:
        for x in "xX":
            for d in _strings(hex_extra_pool, hexn + 1, hex_extra_len):
                cls = f"first={_dclass(d[0])},second={_dclass(d[1])}"
                for s in sufs:
                    yield (f"int.hex[{cls}]", "0" + x + d + s)


def valid_floats(n, expn):
    digs = list(_strings("019", 1, n))
    exps = [""]
    for e in "eE":
        for sg in ("", "+", "-"):
            for d in _strings("019", 1, expn):
                exps.append(e + sg + d)
    for a in digs:
        for b in [""] + digs:
            for ex in exps:
                for s in FLOAT_SUFFIXES:
                    yield ("float.dec.int-dot-frac" if b else "float.dec.int-dot", a + "." + b + ex + s)
    for b in digs:
        for ex in exps:
            for s in FLOAT_SUFFIXES:
                yield ("float.dec.dot-frac", "." + b + ex + s)
    for a in digs:
        for ex in exps[1:]:
            for s in FLOAT_SUFFIXES:
                yield ("float.dec.int-exp", a + ex + s)


def valid_hexfloats(n):
    hs = list(_strings("09aeF", 1, n))
    for (x, p) in (("x", "p"), ("X", "P"), ("x", "P")):
        for sg in ("", "+", "-"):
            for ed in ("0", "12"):
                ex = p + sg + ed
                for s in FLOAT_SUFFIXES:
                    for a in hs:
                        yield ("hexfloat.int", "0" + x + a + ex + s)
                        yield ("hexfloat.int-dot[empty-frac]", "0" + x + a + "." + ex + s)
                        for b in hs:
                            yield ("hexfloat.int-dot-frac", "0" + x + a + "." + b + ex + s)
                    for b in hs:
                        yield ("hexfloat.dot-frac[empty-int]", "0" + x + "." + b + ex + s)


def valid_long():
    """Long literals: lengths around powers of two and round numbers (a length must not matter)."""
    for n in (31, 32, 33, 63, 64, 65, 66, 100, 127, 128, 129, 255, 256, 257, 1000):
        yield (f"long.int.dec[{n}]", "1" + "0" * (n - 1))
        yield (f"long.int.dec+suffix[{n}]", "9" * n + "ULL")
        yield (f"long.int.oct[{n}]", "0" + "7" * (n - 1))
        yield (f"long.int.hex[{n}]", "0x" + "aF09" * (n // 4) + "b" * (n % 4))
        yield (f"long.int.bin[{n}]", "0b" + "10" * (n // 2) + "1" * (n % 2))
        yield (f"long.int.bin+suffix[{n}]", "0b" + "1" * n + "ULL")
        yield (f"long.float.frac[{n}]", "3." + "1415926535" * (n // 10) + "9" * (n % 10))
        yield (f"long.float.int[{n}]", "1" * n + ".5f")
        yield (f"long.float.exp[{n}]", "1.5e" + "1" * n)
        yield (f"long.hexfloat[{n}]", "0x1." + "8a" * (n // 2) + "p3")
        yield (f"long.string[{n}]", '"' + "ab c" * (n // 4) + '"')
        yield (f"long.string.escapes[{n}]", '"' + "\\n\\t" * (n // 4) + '"')


PREFIXES = ["", "L", "u", "U", "u8"]
SIMPLE_ESC = ["\\'", '\\"', "\\?", "\\\\", "\\a", "\\b", "\\f", "\\n", "\\r", "\\t", "\\v"]


def _elements(quote):
    other = '"' if quote == "'" else "'"
    el = [("ord", c) for c in ("a", "0", " ", other, "?", "%")]
    el += [("simple-escape", e) for e in SIMPLE_ESC]
    el += [("octal-escape", "\\" + d) for d in _strings("07", 1, 3)]
    el += [("hex-escape", "\\x" + d) for d in _strings("0aF", 1, 2)]
    return el


def valid_chars():
    for p in PREFIXES:
        for kind, e in _elements("'"):
            yield (f"char.{kind}" + (f"[prefix={p}]" if p else ""), p + "'" + e + "'")


def valid_strings(full_len, small_len):
    els = _elements('"')
    small = [els[0], els[3], els[6], els[9], els[17], els[20], els[31], els[34]]
    for p in PREFIXES:
        pl = f"[prefix={p}]" if p else ""
        yield ("string.empty" + pl, p + '""')
        for body in ("<%d>", "%d%%>", "a%:b", "<:x:>", "%:%:", "a<%", "?:>", "100%>"):
            yield ("string.digraph-text" + pl, p + '"' + body + '"')
        for n in range(1, full_len + 1):
            for combo in itertools.product(els, repeat=n):
                kinds = "+".join(sorted({k for k, _ in combo}))
                yield (f"string.{kinds}" + pl, p + '"' + "".join(e for _, e in combo) + '"')
        for n in range(full_len + 1, small_len + 1):
            for combo in itertools.product(small, repeat=n):
                kinds = "+".join(sorted({k for k, _ in combo}))
                yield (f"string.{kinds}" + pl, p + '"' + "".join(e for _, e in combo) + '"')


# ---------------------------------------------------------------------------- malformed families

def malformed(n):
    """Yield (family, expected_diagnostic, literal, tail) -- `tail` is raw text that must follow the
    literal for the family to make sense ('' = end of input, '\\n' = end of line)."""
    dstr = list(_strings("0189", 0, max(0, n - 2)))
    # M1 digit not allowed in base
    for a in _strings("07", 0, n - 1):
        for bad in "89":
            for rest in dstr:
                yield ("M1.octal-digit", "INVALID_OCT_INT", "0" + a + bad + rest, "")
    for b in "bB":
        for a in _strings("01", 0, n - 1):
            for bad in "29":
                for rest in ("", "0", "1"):
                    yield ("M1.binary-digit", "INVALID_BIN_INT", "0" + b + a + bad + rest, "")
    # M10 two defects at once: each family's diagnostic must still be there
    for lit, diag in (("019q", "INVALID_OCT_INT"), ("089uu", "INVALID_OCT_INT"), ("0b102xyz", "INVALID_BIN_INT"), ("0B21uu", "INVALID_BIN_INT"),
                      ("08_1", "INVALID_OCT_INT"), ("0b2q", "INVALID_BIN_INT")):
        yield ("M10.base-digit+suffix", diag, lit, "")
        yield ("M10.base-digit+suffix", "INVALID_SUFFIX", lit, "")
    # long malformed constants: the defect sits far from the start
    for n in (63, 64, 65, 70, 130):
        yield ("M1.binary-digit.long", "INVALID_BIN_INT", "0b" + "1" * n + "2", "")
        yield ("M1.octal-digit.long", "INVALID_OCT_INT", "0" + "7" * n + "8", "")
        yield ("M2.int-suffix.long", "INVALID_SUFFIX", "1" * n + "uu", "")
        yield ("M5.dots.long", "MULTIPLE_DOTS", "1." + "5" * n + ".5", "")
        yield ("M3.float-suffix.long", "BAD_FLOAT_SUFFIX", "1." + "5" * n + "ff", "")
    # M2 unknown integer suffix
    ints = ["1", "10", "0", "07", "0x1", "0xF", "0b1", "9", "0x9a"]
    for i in ints:
        for s in ("uu", "lul", "lL", "q", "u8", "_1", "i", "llll", "ulu"):
            yield ("M2.int-suffix", "INVALID_SUFFIX", i + s, "")
    for i in ("1", "10", "07", "0b1", "9"):
        yield ("M2.int-suffix", "INVALID_SUFFIX", i + "f", "")
    for p in ("0x", "0X", "0b", "0B"):
        yield ("M2.prefix-without-digits", "INVALID_SUFFIX", p, "")
    # M3 unknown float suffix
    floats = ["1.0", "1.", ".5", "1e5", "1.5e3", ".5e-3", "0x1p3", "0x1.8p-1"]
    for f in floats:
        for s in ("ff", "q", "lf", "i", "fl", "_"):
            yield ("M3.float-suffix", "BAD_FLOAT_SUFFIX", f + s, "")
    # M4 exponent without digits
    for m in ("1", "10", "9"):
        for e in "eE":
            for sg in ("", "+", "-"):
                yield ("M4.int-exp-empty", "BAD_EXPONENT", m + e + sg, "")
    for m in ("1.5", "1.", ".5", "10.01"):
        for e in "eE":
            for sg in ("", "+", "-"):
                yield ("M4.frac-exp-empty", "BAD_EXPONENT", m + e + sg, "")
    for m in ("0x1", "0x1.8", "0xA.", "0X.8"):
        for p in "pP":
            for sg in ("", "+", "-"):
                yield ("M4.hexfloat-exp-empty", "BAD_EXPONENT", m + p + sg, "")
    # M5 several dots
    for lit in ("1.2.3", "1..2", "1..", ".1.2", "10.0.0", "1.2.3.4"):
        yield ("M5.dots", "MULTIPLE_DOTS", lit, "")
    # a second dot (or a fraction) after a well-formed exponent
    for lit in ("1.5e3.2", ".5E+5.1", "2.5e-3.f", "12.e5.", "0x1.8p3.1", "0x.8P-2.5f", "1.e5.0"):
        yield ("M5.dot-after-exponent", "MULTIPLE_DOTS", lit, "")
    for lit in ("1e5.3", "1e5.", "1e+5.5e1", "7E-2.f"):
        yield ("M3.dot-after-exponent", "BAD_FLOAT_SUFFIX", lit, "")
    # M6 empty / unterminated character
    for p in PREFIXES:
        yield ("M6.empty-char", "EMPTY_CHAR", p + "''", "")
        yield ("M6.char-eof", "UNEXPECTED_EOF_CHR", p + "'a", "")
        yield ("M6.char-eol", "UNEXPECTED_EOL_CHR", p + "'a", "\n")
        yield ("M6.char-eol", "UNEXPECTED_EOL_CHR", p + "'", "\n")
        yield ("M6.char-eof", "UNEXPECTED_EOF_CHR", p + "'", "")
    # M7 unterminated string / comment at end of input
    for p in PREFIXES:
        for body in ("", "abc", "a b", "\\n", "'"):
            yield ("M7.string-eof", "UNEXPECTED_EOF_STR", p + '"' + body, "")
        # the last characters are an *escaped* quote: the literal is still open
        for body in ('\\"', 'abc\\"', '\\\\\\"', '\\"\\"'):
            yield ("M7.string-eof-escaped-quote", "UNEXPECTED_EOF_STR", p + '"' + body, "")
    for p in PREFIXES:
        for body in ("\\'", "a\\'"):
            yield ("M6.char-eof-escaped-quote", "UNEXPECTED_EOF_CHR", p + "'" + body, "")
            yield ("M6.char-eol-escaped-quote", "UNEXPECTED_EOL_CHR", p + "'" + body, "\n")
    for body in ("", " abc", "*", "/", " a\nb", "* /"):
        yield ("M7.comment-eof", "UNEXPECTED_EOF_MC", "/*" + body, "")
    # M8 bad escapes (Notice level)
    for q in "'\"":
        for esc in ("\\q", "\\c", "\\ ", "\\1x"[:2] + "", "\\z"):
            if esc == "\\1":
                continue
            yield ("M8.unknown-escape", "UNKNOWN_ESCAPE", q + esc + q, "")
        for esc in ("\\x", "\\xg", "\\x "):
            yield ("M8.hex-escape-without-digits", "NO_HEX_DIGITS", q + esc + q, "")
    # M9 sign glued to a hex constant ending in e/E
    for h in ("0x1e", "0xE", "0XAE", "0xee"):
        for sg in "+-":
            for d in ("5", "1", "a"):
                yield ("M9.hex-e-sign", "MAXIMAL_MUNCH", h + sg + d, "")
