"""A corpus of real-world-shaped inputs for the properties that need no model (differential and invariant
oracles): a snapshot of the sample *inputs* of norminette's own test-suite (/verif/corpus/samples, sources only,
never their golden outputs).  They hold constructs the reference model does not derive (function pointers,
attributes, bit-fields, enums in sources, nested preprocessor conditionals, ...)."""
from __future__ import annotations

import functools
import os

ROOT = os.path.join(os.path.dirname(os.path.dirname(os.path.abspath(__file__))), "corpus", "samples")


@functools.lru_cache(maxsize=None)
def samples():
    """Sorted list of (file name, text)."""
    out = []
    if not os.path.isdir(ROOT):
        return tuple(out)
    for fn in sorted(os.listdir(ROOT)):
        if fn.endswith((".c", ".h")):
            with open(os.path.join(ROOT, fn), encoding="utf-8", errors="replace") as f:
                out.append((fn, f.read()))
    return tuple(out)


def sample_slice(k, of):
    s = samples()
    return [s[i] for i in range(k % of, len(s), of)]
