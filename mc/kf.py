"""Maintenance helper for known_findings.json (never used by checks at run time):
   python -m mc.kf add <prop> <signature> <example> <description>
   python -m mc.kf fixed <prop> <signature> <commit> <what failed>
"""
import json
import sys
import os

P = os.path.join(os.path.dirname(os.path.dirname(os.path.abspath(__file__))), "known_findings.json")


def main():
    d = json.load(open(P))
    cmd = sys.argv[1]
    if cmd == "add":
        prop, sig, ex, desc = sys.argv[2:6]
        for e in d["findings"]:
            if e["property"] == prop and e["signature"] == sig:
                print("exists")
                return
        d["findings"].append({"property": prop, "status": "open", "signature": sig, "example": ex,
                              "description": desc})
    elif cmd == "fixed":
        prop, sig, commit, what = sys.argv[2:6]
        hit = False
        for e in d["findings"]:
            if e["property"] == prop and e["signature"] == sig:
                e["status"] = "fixed"
                e["commit"] = commit
                e["line"] = f"fixed: property={prop} {commit} {what}"
                hit = True
        if not hit:
            d["findings"].append({"property": prop, "status": "fixed", "commit": commit, "signature": sig,
                                  "line": f"fixed: property={prop} {commit} {what}", "description": what})
    json.dump(d, open(P, "w"), indent=1, ensure_ascii=True)
    open(P, "a").write("\n")


main()
