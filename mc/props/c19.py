"""C19 -- diagnostics are local: unrelated text only shifts them (DESIGN §4.19; differential over insertion points)."""
from __future__ import annotations

from .. import explore
from ..common import CheckResult, BASE_ASSUMPTIONS, HarnessError
from ..findings import Failure
from ..model import norm, header42
from . import diffcommon

COMMENTS = ["// c", "/* c */"]
APPEND = [
    "void\tft_extra(void)\n{\n\treturn ;\n}\n",
    "int\tft_extra(int n)\n{\n\treturn (n);\n}\n",
    "char\t*ft_extra(char *s, int n, char c, int *p)\n{\n\tp[n] = c;\n\treturn (s);\n}\n",
    "int\tft_extra(void)\n{\n\tint\ti;\n\n\ti = 0;\n\treturn (i);\n}\n",
    "static int\tft_extra(int a, int b)\n{\n\tint\t\ttotal;\n\tchar\t*tmp;\n\n\ttmp = 0;\n\ttotal = a + b;\n\treturn (total + (tmp != 0));\n}\n",
    "t_list\t*ft_extra(t_list *lst)\n{\n\twhile (lst->next)\n\t\tlst = lst->next;\n\treturn (lst);\n}\n",
]


def top_points(lines, ftype):
    """Indices i such that a line may be inserted before lines[i] at brace depth 0 between two top-level
    items (never inside a function, a type block or a multi-line comment)."""
    pts = []
    depth = 0
    in_multi = False
    for i, l in enumerate(lines):
        t = l.text()
        ok = depth == 0 and not in_multi and i > 0
        if ok and ftype == ".h" and l.kind in ("guarddef",):
            ok = False
        if ok and lines[i - 1].kind == "empty" and l.kind == "empty":
            ok = False      # between two empty lines: the comment legitimately separates them (DESIGN §9)
        if ok and (l.kind in ("lbrace", "raw") or lines[i - 1].kind in ("raw", "funcsig", "tbhead")):
            ok = False      # between a head and its brace: not a point between two definitions
        if ok:
            pts.append(i)
        if in_multi:
            if t.startswith("*/"):
                in_multi = False
            continue
        if l.kind == "comment" and t == "/*":
            in_multi = True
        depth += t.count("{") - t.count("}") if l.kind in ("lbrace", "rbrace", "tbend", "tbhead", "funcsig") or "{" in t or "}" in t else 0
    if depth == 0 and not in_multi and ftype == ".c" and lines and lines[-1].kind != "empty":
        pts.append(len(lines))
    return pts


def shift(diags, frm, by):
    return sorted((lv, c, (ln + by if ln >= frm else ln), col) for lv, c, ln, col in diags)


def file_task(task):
    fname, ftype, pre, lines, nfuncs = task
    out = []
    n = 0
    body = norm.render(lines)
    hdr_n = header42.HEADER_NLINES + 1
    full_text = norm.render(pre + lines)
    full = diffcommon.diag4(fname, full_text)
    # ---- L1: header in front of the headerless file
    guard_part = norm.render(pre[hdr_n:])
    nohdr_text = guard_part + body
    nohdr = diffcommon.diag4(fname, nohdr_text)
    n += 2
    if nohdr[1] is None and full[1] is None:
        rest = list(nohdr[0])
        inv = [d for d in rest if d[1] == "INVALID_HEADER"]
        if len(inv) != 1:
            out.append(("L1", "headerless-without-single-INVALID_HEADER", f"headerless file has {len(inv)} INVALID_HEADER", nohdr_text, full_text))
        else:
            rest.remove(inv[0])
            want = shift(rest, 1, hdr_n)
            if sorted(full[0]) != want:
                a, b = set(full[0]), set(want)
                out.append(("L1", "header-changes-other-diagnostics", f"with header only {sorted(a - b)[:3]}, shifted headerless only "
                                                                     f"{sorted(b - a)[:3]}", nohdr_text, full_text))
    elif (nohdr[1] is None) != (full[1] is None):
        out.append(("L1", "header-changes-fatality", f"exc {nohdr[1]} without header, {full[1]} with", nohdr_text, full_text))
    # ---- L1b: the header put *directly* in front (no empty line): every other diagnostic moves down 11 lines
    direct_text = norm.render(pre[:header42.HEADER_NLINES]) + nohdr_text
    direct = diffcommon.diag4(fname, direct_text)
    n += 1
    if nohdr[1] is None and direct[1] is None:
        rest = list(nohdr[0])
        inv = [d for d in rest if d[1] == "INVALID_HEADER"]
        if len(inv) == 1:
            rest.remove(inv[0])
            want = shift(rest, 1, header42.HEADER_NLINES)
            if sorted(direct[0]) != want:
                a, b = set(direct[0]), set(want)
                first = "comment" if nohdr_text.lstrip().startswith(("/*", "//")) else "directive" if nohdr_text.startswith("#") else "code"
                out.append(("L1", f"header-directly-in-front:first-line={first}", f"with header only {sorted(a - b)[:3]}, shifted headerless "
                                                                                   f"only {sorted(b - a)[:3]}", nohdr_text, direct_text))
    # ---- L2: a comment line at every top-level point
    npre = len(pre)
    if full[1] is None:
        for p in top_points(lines, ftype):
            for c in COMMENTS:
                new = lines[:p] + [norm.Line([norm.P("cmt", c)], "comment")] + lines[p:]
                text = norm.render(pre + new)
                n += 1
                got = diffcommon.diag4(fname, text)
                want = shift(full[0], npre + p + 1, 1)
                if got[1] is not None or sorted(got[0]) != want:
                    a, b = set(got[0]), set(want)
                    prev = lines[p - 1].kind if p > 0 else "start"
                    nxt = lines[p].kind if p < len(lines) else "eof"
                    if p > 0 and lines[p - 1].text().startswith("#") and not a - b and \
                            {(d[1], d[2]) for d in b - a} == {("NL_AFTER_PREPROC", npre + p + 2)}:
                        prev, nxt = "directive", "code:only-NL_AFTER_PREPROC-disappears"
                    out.append(("L2", f"{'line' if c.startswith('//') else 'block'}-comment:between={prev}|{nxt}",
                                f"comment {c!r} before body line {p + 1}: only after {sorted(a - b)[:3]}, only expected "
                                f"{sorted(b - a)[:3]}, exc {got[1]}", text, full_text))
    # ---- L3: appending a conforming function
    if ftype == ".c" and nfuncs < 5 and full[1] is None and lines and lines[-1].kind == "rbrace":
        for k, fn in enumerate(APPEND):
            text = full_text + "\n" + fn
            n += 1
            got = diffcommon.diag4(fname, text)
            if got[1] is not None or sorted(got[0]) != sorted(full[0]):
                a, b = set(got[0]), set(full[0])
                out.append(("L3", f"append#{k}:funcs={nfuncs}", f"appending function #{k}: new {sorted(a - b)[:3]}, lost {sorted(b - a)[:3]}, "
                                                               f"exc {got[1]}", text, full_text))
    return n, out


KIND_OF = {"IsFuncDeclaration": "funcsig", "IsFuncPrototype": "proto", "IsEmptyLine": "empty", "IsComment": "comment",
           "IsVarDeclaration": "global", "IsBlockEnd": "rbrace", "IsBlockStart": "lbrace", "IsUserDefinedType": "tbhead",
           "IsTypedefDeclaration": "typedef", "IsEnumVarDecl": "enumr"}


def sample_points(fname, text):
    """Top-level insertion points of a raw text from the pop trace of the real run: (line, kind before, kind after)
    for every statement that starts in column 1 at file level right after a statement that ended with a newline."""
    from .. import impl
    r = impl.run_text(fname, text, trace=True)
    if r.exc is not None or not r.trace:
        return None, 0, []
    lines = text.split("\n")

    def kind(tr):
        prim, pos = tr[2], tr[3]
        if prim == "IsPreprocessorStatement" and pos:
            w = lines[pos[0] - 1].lstrip("#").split()
            return w[0] if w else "hash"
        return KIND_OF.get(prim, prim or "unrecognised")

    pts = []
    nfuncs = sum(1 for x in r.trace if x[2] == "IsFuncDeclaration")
    for k in range(1, len(r.trace)):
        prev, cur = r.trace[k - 1], r.trace[k]
        if len(prev[5]) != 1 or cur[3] is None or cur[3][1] != 1 or prev[4] != "NEWLINE":
            continue
        kp, kc = kind(prev), kind(cur)
        if kp == "empty" and kc == "empty":
            continue
        if kc == "lbrace" or kp in ("funcsig", "tbhead") or prev[2] is None or cur[2] is None:
            continue
        if lines[cur[3][0] - 2].endswith("\\"):
            continue            # inside a spliced directive
        if text.startswith("/* ****") and cur[3][0] <= header42.HEADER_NLINES + 1:
            continue            # inside the 42 header
        pts.append((cur[3][0], kp, kc))
    return r, nfuncs, pts


def sample_task(task):
    fname, text = task
    out = []
    n = 1
    r, nfuncs, pts = sample_points(fname, text)
    if r is None:
        return n, out
    base = diffcommon.diag4(fname, text)
    lines = text.split("\n")
    # L1: the header (and its separating empty line) in front of a headerless file that starts with a non-empty line
    inv = [d for d in base[0] if d[1] == "INVALID_HEADER"]
    if len(inv) == 1 and lines[0].strip():
        for sep, by in (("\n", header42.HEADER_NLINES + 1),):
            v = header42.header_text(fname) + sep + text
            n += 1
            got = diffcommon.diag4(fname, v)
            rest = list(base[0])
            rest.remove(inv[0])
            want = shift(rest, 1, by)
            if got[1] is not None or sorted(got[0]) != want:
                a, b = set(got[0]), set(want)
                out.append(("L1", "sample:header-changes-other-diagnostics", f"with header only {sorted(a - b)[:3]}, shifted headerless only "
                                                                            f"{sorted(b - a)[:3]}, exc {got[1]}", v, text))
    # L2: a comment line at every top-level point
    for (ln, kp, kc) in pts:
        for c in COMMENTS:
            v = "\n".join(lines[:ln - 1] + [c] + lines[ln - 1:])
            n += 1
            got = diffcommon.diag4(fname, v)
            # INVALID_HEADER is a diagnostic about the start of the file (law L1), anchored after its leading comments
            want = [d for d in shift(base[0], ln, 1) if d[1] != "INVALID_HEADER"]
            got = ([d for d in got[0] if d[1] != "INVALID_HEADER"], got[1], got[2])
            if got[1] is not None or sorted(got[0]) != want:
                a, b = set(got[0]), set(want)
                if lines[ln - 2].lstrip().startswith("#") and not a - b and {(d[1], d[2]) for d in b - a} == {("NL_AFTER_PREPROC", ln + 1)}:
                    kp, kc = "directive", "code:only-NL_AFTER_PREPROC-disappears"
                out.append(("L2", f"{'line' if c.startswith('//') else 'block'}-comment:between={kp}|{kc}",
                            f"comment {c!r} before line {ln}: only after {sorted(a - b)[:3]}, only expected {sorted(b - a)[:3]}, exc {got[1]}",
                            v, text))
    # L3: appending a conforming function to a source with < 5 functions that ends at file level after a closing brace
    if fname.endswith(".c") and nfuncs < 5 and len(r.trace[-1][5]) == 1 and text.endswith("}\n"):
        for k, fn in enumerate(APPEND):
            v = text + "\n" + fn
            n += 1
            got = diffcommon.diag4(fname, v)
            if got[1] is not None or sorted(got[0]) != sorted(base[0]):
                a, b = set(got[0]), set(base[0])
                out.append(("L3", f"sample:append#{k}:funcs={nfuncs}", f"appending function #{k}: new {sorted(a - b)[:3]}, lost {sorted(b - a)[:3]}, "
                                                                      f"exc {got[1]}", v, text))
    return n, out


def run(tier, seed):
    st = explore.Stats()
    files = diffcommon.carrier_files(tier, 80 if tier == "quick" else 800, 80 if tier == "quick" else 0)
    # carriers with counters at their limit: 4 and 5 functions, 5 variables, misaligned declarations
    b = norm.Bounds(5, 5, 12, 2, 2, 1, 2, False)
    for nf in (4, 5, 14, 15):
        ids = ()
        if nf > 10:
            nf -= 10
            ids = ("glob:sarr", "glob:marr", "empty", "proto:int", "empty")
        for i in range(nf):
            ids += ("fsig:int", "decl:charp", "decl:int", "empty", "s:assign", "s:return", "fend") + (("empty",) if i < nf - 1 else ())
        rp = norm.replay(".c", ids, b, "test.c", with_preamble=False)
        pre = norm.preamble(".c", "test.c")
        files.append({"ftype": ".c", "fname": "test.c", "pre": pre, "lines": rp.lines, "ids": ids,
                      "text": norm.render(pre + rp.lines)})
    # carriers with something between a function head and its brace (a directive pair, a define, a comment), placed so
    # that the file's running line count crosses 25 around them once a header or a comment line is added
    for base in [f for f in files if f["ftype"] == ".c" and sum(1 for l in f["lines"] if l.kind == "funcsig") >= 1][:6]:
        lines = base["lines"]
        for label, seps in (("ifdef-pair", ["#ifdef FT_DEBUG", "#endif"]), ("define", ["#define SEP 1"]), ("comment", ["// body follows"])):
            new = []
            for i, l in enumerate(lines):
                if l.kind == "lbrace" and l.depth == 0 and i > 0 and lines[i - 1].kind == "funcsig":
                    new += [norm.Line([norm.P("raw", t)], "raw") for t in seps]
                new.append(l)
            # pad with prototypes so that the separators sit around line 25 of the file with the header
            files.append({"ftype": ".c", "fname": base["fname"], "pre": base["pre"], "lines": new, "ids": base["ids"] + ("sep:" + label,),
                          "text": norm.render(base["pre"] + new)})
    tasks = []
    for f in files:
        nfuncs = sum(1 for l in f["lines"] if l.kind == "funcsig")
        tasks.append((f["fname"], f["ftype"], f["pre"], f["lines"], nfuncs))
    res = explore.pmap(file_task, tasks, chunksize=1)
    failures = []
    laws = {}
    for t, (n, out) in zip(tasks, res):
        st.runs += n
        for law, label, detail, text, base in out:
            failures.append(Failure("C19", f"{law}:{label}", f"{t[0]}: {detail[:300]}", {"fname": t[0], "law": law, "text": text, "base": base}))
    from .. import corpus
    smp = list(corpus.samples())
    sres = explore.pmap(sample_task, smp, chunksize=1)
    for (fn, tx), (n, out) in zip(smp, sres):
        st.runs += n
        st.bump("sample_runs", n)
        for law, label, detail, text, base in out:
            failures.append(Failure("C19", f"{law}:{label}", f"{fn}: {detail[:300]}", {"fname": fn, "law": law, "text": text, "base": base}))
    st.states = len(files)
    st.transitions = st.runs
    st.outcomes = set(range(len(files)))
    if st.runs < len(files) * 4:
        raise HarnessError("insertion-point enumeration is vacuous")
    st.sample({"law": "L2", "points_example": top_points(files[0]["lines"], files[0]["ftype"])[:10]})
    st.sample({"law": "L3", "appended": APPEND[2]})
    return CheckResult(
        st, failures,
        rule="every carrier / enriched / counter-at-limit file: L1 header prepended to the headerless file, L2 each of two "
             "comment lines inserted at every top-level point, L3 each of six conforming functions appended (files with "
             "< 5 functions); oracle: the diagnostics are exactly the shifted originals; distinct = files",
        exhaustive=True, bounds={"files": len(files), "comments": len(COMMENTS), "appended_functions": len(APPEND)},
        alphabet={"laws": 3},
        assumptions=BASE_ASSUMPTIONS + ["top-level points are computed from the model's line kinds"],
        distinct=len(files),
    )


def replay(payload):
    a = diffcommon.diag4(payload["fname"], payload["text"])
    b = diffcommon.diag4(payload["fname"], payload["base"])
    if payload["law"] == "L3":
        return [Failure("C19", "L3", f"{a[0][:4]} vs {b[0][:4]}", payload)] if (a[1], sorted(a[0])) != (b[1], sorted(b[0])) else []
    # L1/L2: replay re-evaluates the relation loosely: the multiset of (level, code) must agree up to INVALID_HEADER
    ca = sorted((d[0], d[1]) for d in a[0] if d[1] != "INVALID_HEADER")
    cb = sorted((d[0], d[1]) for d in b[0] if d[1] != "INVALID_HEADER")
    la = sorted(d[3] for d in a[0] if d[1] != "INVALID_HEADER")
    lb = sorted(d[3] for d in b[0] if d[1] != "INVALID_HEADER")
    if ca != cb or la != lb or (a[1] is None) != (b[1] is None):
        return [Failure("C19", payload["law"], f"{a[0][:4]} vs {b[0][:4]}", payload)]
    # same codes: compare line shifts exactly
    if payload["law"] == "L1":
        by = payload["base"].count("\n") - payload["text"].count("\n")
        want = shift([d for d in a[0] if d[1] != "INVALID_HEADER"], 1, by)
        return [] if want == sorted(b[0]) else [Failure("C19", "L1", "line shift differs", payload)]
    da = [d[2] for d in sorted(a[0])]
    db = [d[2] for d in sorted(b[0])]
    if any(x - y not in (0, 1) for x, y in zip(sorted(da), sorted(db))):
        return [Failure("C19", "L2", "line shift differs", payload)]
    return []
