"""C17 -- comment text and string contents are opaque (DESIGN §4.17; differential, deviation-bounded)."""
from __future__ import annotations

import itertools

from .. import explore
from ..common import CheckResult, BASE_ASSUMPTIONS, HarnessError
from ..findings import Failure
from ..model import norm
from . import diffcommon

LEXEMES = [";", "{", "}", "(", ")", "[", "]", "=", "==", "+", "-", "*", "/", "%", "<", ">", "&", "|", "!", "?", ":", ",", ".",
           "->", "#", "if", "else", "while", "return", "int", "//", "/*", "'", '"', "a", "0",
           # an encoding prefix directly followed by the *other* quote, number prefixes: spellings that start a literal
           "L'", "l'", "u'", "U'", "u8'", 'L"', 'u8"', "0x", "0b", "1e", ".5", "<%", "%:",
           # question marks: alone they are text; two of them start a trigraph only with one of nine third characters
           "??", "???", "??a", "a??", "?",
           # accented letters: one displayed column each, several bytes in UTF-8
           "\u00e9", "\u00fc\u00e9", "\u00e0x\u00e7"]
TRIGRAPHS = ("??=", "??(", "??/", "??)", "??'", "??<", "??!", "??>", "??-")


def pool(width, forbidden, cap, after="'\"*", keep_singles=False):
    """Replacement texts of exactly `width` characters built from <= 3 code-like lexemes padded with x."""
    lex = [l for l in LEXEMES if not any(f in l for f in forbidden)]
    out = []
    seen = set()

    def add(s):
        # a real trigraph is one displayed character (and '??/' is a backslash): excluded, also when the character
        # after the site (a quote, a star, the line end) would complete it; any other '??' is plain text
        if len(s) == width and s not in seen and not any(f in s for f in forbidden) \
                and not any(t in s + c for t in TRIGRAPHS for c in (after or " ")):
            seen.add(s)
            out.append(s)

    if width <= 0:
        return [""]
    add("x" * width)
    for a in lex:
        if len(a) <= width:
            add(a + "x" * (width - len(a)))
            add("x" * (width - len(a)) + a)
            mid = (width - len(a)) // 2
            add("x" * mid + a + "x" * (width - len(a) - mid))
    nsingle = len(out) if keep_singles else 0
    for a, b in itertools.product(lex, repeat=2):
        if len(a) + len(b) <= width:
            pad = width - len(a) - len(b)
            add(a + b + "x" * pad)
            add(a + "x" * pad + b)
            if width <= 4:
                add("x" * pad + a + b)
    if width <= 4:
        for a, b, c in itertools.product(lex, repeat=3):
            if len(a) + len(b) + len(c) <= width:
                add(a + b + c + "x" * (width - len(a) - len(b) - len(c)))
    if cap and len(out) - nsingle > cap:
        rest = out[nsingle:]
        step = len(rest) / cap
        out = out[:nsingle] + [rest[int(i * step)] for i in range(cap)]
    return out


def sites(lines):
    """(line idx, piece idx, kind, prefix, inner, suffix, forbidden) of every opaque text."""
    out = []
    for li, l in enumerate(lines):
        for pi, p in enumerate(l.pieces):
            t = p.text
            if p.tag == "cmt":
                if t.startswith("//"):
                    out.append((li, pi, "linecomment", "//", t[2:], "", ("\\", "\n")))
                elif t.startswith("/*") and t.endswith("*/") and len(t) >= 4:
                    out.append((li, pi, "blockcomment", "/*", t[2:-2], "*/", ("*/", "\\", "\n")))
                elif t.startswith("**"):
                    out.append((li, pi, "blockcomment-interior", "**", t[2:], "", ("*/", "\\", "\n")))
            elif p.tag == "str" and t.startswith('"'):
                out.append((li, pi, "string", '"', t[1:-1], '"', ('"', "\\", "\n")))
            elif p.tag == "chr" and t.startswith("'") and len(t) == 3:
                out.append((li, pi, "char", "'", t[1:-1], "'", ("'", "\\", "\n")))
    return out


def replaced(lines, li, pi, newtext):
    new = list(lines)
    l = new[li].copy()
    l.pieces[pi] = norm.P(l.pieces[pi].tag, newtext)
    new[li] = l
    return new


def file_task(task):
    fname, pre, lines, cap, pairs, only = task
    base_text = norm.render(pre + lines)
    base = diffcommon.diag4(fname, base_text)
    out = []
    n = 0
    ss = sites(lines)
    per_kind = {}
    # texts of the other comments / literals of the same file (the 42 header lines included) are replacement candidates
    # too: what one comment says must not matter to what is reported about another one
    others = [l.text()[2:-2] for l in pre if l.kind == "hdr42"]
    others += [x[4] for x in ss]
    for si, (li, pi, kind, pfx, inner, sfx, forb) in enumerate(ss):
        if only is not None and si != only:
            continue
        per_kind[kind] = per_kind.get(kind, 0) + 1
        copies = [o for o in dict.fromkeys(others) if len(o) == len(inner) and o != inner and not any(f in o for f in forb)]
        for rep in pool(len(inner), forb, abs(cap), after=(sfx[:1] or " "), keep_singles=cap < 0) + copies:
            if rep == inner or (kind == "blockcomment-interior" and rep.startswith("/")):
                continue            # '**' + '/' would close the comment: the delimiter must not be formed
            # a block comment whose text starts with '/' right after '/*' is still inside the comment
            text = norm.render(pre + replaced(lines, li, pi, pfx + rep + sfx))
            n += 1
            got = diffcommon.diag4(fname, text)
            if got != base:
                a, b = set(got[0]), set(base[0])
                out.append((kind, _cls(rep), f"replacing {inner!r} by {rep!r}: only after {sorted(a - b)[:3]}, only before "
                                             f"{sorted(b - a)[:3]}, exc {got[1]} vs {base[1]}", text))
    if pairs and len(ss) >= 2:
        for (s1, s2) in itertools.combinations(ss, 2):
            r1 = pool(len(s1[4]), s1[6], 6)
            r2 = pool(len(s2[4]), s2[6], 6)
            for a, b in itertools.product(r1[1:], r2[1:]):
                if (s1[2] == "blockcomment-interior" and a.startswith("/")) or (s2[2] == "blockcomment-interior" and b.startswith("/")):
                    continue
                new = replaced(replaced(lines, s1[0], s1[1], s1[3] + a + s1[5]), s2[0], s2[1], s2[3] + b + s2[5])
                n += 1
                got = diffcommon.diag4(fname, norm.render(pre + new))
                if got != base:
                    out.append((s1[2] + "+" + s2[2], "pair", f"replacing two sites: {got[0][:3]} vs {base[0][:3]}", norm.render(pre + new)))
    return n, out, per_kind, base_text


def sample_sites(fname, text):
    """Opaque-text sites of a raw text, from the token spans: (start, end, kind, prefix, inner, suffix, forbidden)."""
    from .. import impl
    from ..model import lexref
    t, errs, exc = impl.lex(text, fname)
    if t is None:
        return []
    al = lexref.align(text, t, set())
    if not al["ok"]:
        return []
    out = []
    has_header = text.startswith("/* ****")
    for x, (a, b) in zip(t, al["spans"]):
        raw = text[a:b]
        if has_header and x.pos[0] <= 11:
            continue                    # the 42 header is outside the property
        if "\n" in raw or "\\" in raw or "\t" in raw or "??" in raw:
            continue
        ls = text.rfind("\n", 0, a) + 1
        head = text[ls:a].replace(" ", "").replace("\t", "")
        if head.startswith("#include") or head.startswith("#import"):
            continue
        if x.type == "COMMENT" and raw.startswith("//"):
            out.append((a, b, "linecomment", "//", raw[2:], "", ("\\", "\n")))
        elif x.type == "MULT_COMMENT" and raw.startswith("/*") and raw.endswith("*/") and len(raw) >= 4:
            out.append((a, b, "blockcomment", "/*", raw[2:-2], "*/", ("*/", "\\", "\n")))
        elif x.type == "STRING" and raw.startswith('"') and raw.endswith('"') and len(raw) >= 2:
            out.append((a, b, "string", '"', raw[1:-1], '"', ('"', "\\", "\n")))
        elif x.type == "CHAR_CONST" and raw.startswith("'") and len(raw) == 3:
            out.append((a, b, "char", "'", raw[1:-1], "'", ("'", "\\", "\n")))
    return out


def sample_task(task):
    """Worker: one sample input of norminette's own tests, at text level (comments and literals found by the lexer)."""
    fname, text, cap = task
    base = diffcommon.diag4(fname, text)
    out = []
    n = 0
    per_kind = {}
    full_done = set()
    for (a, b, kind, pfx, inner, sfx, forb) in sample_sites(fname, text):
        per_kind[kind] = per_kind.get(kind, 0) + 1
        full = kind not in full_done and cap < 0
        full_done.add(kind)
        for rep in pool(len(inner), forb, abs(cap), after=(sfx[:1] or " "), keep_singles=full):
            if rep == inner or (kind == "blockcomment" and rep.endswith("*")) or (kind == "blockcomment" and rep.startswith("/") and False):
                continue
            v = text[:a] + pfx + rep + sfx + text[b:]
            n += 1
            got = diffcommon.diag4(fname, v)
            if got != base:
                x, y = set(got[0]), set(base[0])
                out.append((kind, _cls(rep), f"replacing {inner!r} by {rep!r}: only after {sorted(x - y)[:3]}, only before "
                                             f"{sorted(y - x)[:3]}, exc {got[1]} vs {base[1]}", v))
    return n, out, per_kind, text


def _cls(rep):
    for lx in sorted(LEXEMES, key=len, reverse=True):
        if lx in rep and lx not in ("a", "0"):
            return lx
    return "plain"


def run(tier, seed):
    st = explore.Stats()
    files = diffcommon.carrier_files(tier, 40 if tier == "quick" else 300, 40 if tier == "quick" else 0)
    files = [f for f in files if sites(f["lines"])]
    cap = 60 if tier == "quick" else 600
    tasks = []
    full_kinds = {}
    for i, f in enumerate(files):
        for si, site in enumerate(sites(f["lines"])):
            # the first two sites of every kind get every single-lexeme replacement (start / end / middle), the others
            # an even slice of the pool
            k = full_kinds.get(site[2], 0)
            full_kinds[site[2]] = k + 1
            tasks.append((f["fname"], f["pre"], f["lines"], -cap if k < 2 else cap, False, si))
        if tier == "thorough" and i < 40:
            tasks.append((f["fname"], f["pre"], f["lines"], 0, True, -1))
    res = explore.pmap(file_task, tasks, chunksize=1)
    failures = []
    kinds = {}
    for t, (n, out, pk, base_text) in zip(tasks, res):
        st.runs += n
        for k, v in pk.items():
            kinds[k] = kinds.get(k, 0) + v
        for kind, cls, detail, text in out:
            failures.append(Failure("C17", f"{kind}:replacement-contains:{cls}", f"{t[0]}: {detail[:300]}",
                                    {"fname": t[0], "text": text, "base": base_text}))
    from .. import corpus
    smp = [(fn, tx, (-10 if i % 16 == seed % 16 else 10) if tier == "quick" else -80) for i, (fn, tx) in enumerate(corpus.samples())]
    sres = explore.pmap(sample_task, smp, chunksize=1)
    for (fn, tx, _), (n, out, pk, _b) in zip(smp, sres):
        st.runs += n
        for k, v in pk.items():
            kinds["sample-" + k] = kinds.get("sample-" + k, 0) + v
        for kind, cls, detail, text in out:
            failures.append(Failure("C17", f"sample:{kind}:replacement-contains:{cls}", f"{fn}: {detail[:300]}",
                                    {"fname": fn, "text": text, "base": tx}))
    for k, v in kinds.items():
        st.bump("sites:" + k, v)
    for k in ("linecomment", "blockcomment", "string", "char"):
        if kinds.get(k, 0) == 0:
            raise HarnessError(f"no site of kind {k}")
    st.states = len(files)
    st.transitions = st.runs
    st.outcomes = set(range(len(files)))
    st.sample({"site": "string", "inner": "hello, world", "replacement": pool(12, ('"', "\\", "\n"), 5)})
    st.sample({"file": files[0]["fname"], "ids": list(files[0]["ids"])})
    return CheckResult(
        st, failures,
        rule="every opaque-text site (line / block / interior comment, string, char literal) of the enriched and carrier "
             "files x every replacement of the same width built from <= 3 code-like lexemes (all for width <= 4; capped "
             "slices for wider sites), one site at a time (pairs in thorough); oracle: identical (level, code, line, col) "
             "diagnostics; distinct = files",
        exhaustive=True, bounds={"per_site_cap": cap, "deviations": 1 if tier == "quick" else 2},
        alphabet={"lexemes": len(LEXEMES)},
        assumptions=BASE_ASSUMPTIONS + ["replacements never contain the site's delimiter, a backslash, a trigraph (one displayed character; ??/ is a backslash) or a newline"],
        distinct=len(files),
    )


def replay(payload):
    a = diffcommon.diag4(payload["fname"], payload["text"])
    b = diffcommon.diag4(payload["fname"], payload["base"])
    return [Failure("C17", "differs", f"{a[0][:4]} vs {b[0][:4]}", payload)] if a != b else []
