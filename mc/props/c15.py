"""C15 -- exactly the requested C sources are checked (DESIGN §4.15; shape H over trees x argument lists)."""
from __future__ import annotations

import itertools
import os
import re
import shutil
import subprocess
import tempfile

from .. import explore, impl
from ..common import CheckResult, BASE_ASSUMPTIONS, HarnessError, seeded_rotation
from ..findings import Failure
from ..model import header42

FUNC = "int\tft_value(int n)\n{\n\treturn (n + 1);\n}\n"

ROOT_FILES = ["a.c", "b.h", "my file.c", "a.cc", "notes.txt", "x.y.c", "A.C", "Makefile", " lead.c"]
ROOT_DIRS = ["src", "lib.c", "empty", "my dir", "inc.h", "v1.2", "src "]
CHILD_FILES = ["x.y.c", "v1.2.h", "a.c.bak", "a.hh", "ac", "a.c", "b.h"]
GITIGNORES = ["*.h\n", "src/\n", "my file.c\n", ""]


# C15-10: the selection must not depend on what a file holds -- two names of the alphabet are zero-byte files (a stub
# made with touch(1) is a requested regular file like any other and gets its verdict line)
ZERO_BYTE = ("x.y.c", "v1.2.h")


def content(name):
    if name in ZERO_BYTE:
        return ""
    hdr = header42.header_text(name) + "\n"
    if name.endswith(".h"):
        g = name.upper().replace(".", "_").replace(" ", "_")
        return hdr + f"#ifndef {g}\n# define {g}\n\nint\tft_value(int n);\n\n#endif\n"
    return hdr + FUNC


def trees(tier, seed):
    """Yield trees as nested tuples: (('f', name) | ('d', name, children), ...) -- sets of siblings."""
    max_root = 2 if tier == "quick" else 3
    max_child = 1 if tier == "quick" else 2
    max_entries = 4 if tier == "quick" else 6
    root_pool = [("f", n) for n in ROOT_FILES] + [("d", n) for n in ROOT_DIRS]
    child_sets = [()]
    for k in range(1, max_child + 1):
        child_sets += list(itertools.combinations(CHILD_FILES, k))
    if tier == "thorough":
        nested = [(("d", "my dir", (("f", "a.c"),)),), (("d", "inc.h", (("f", "b.h"), ("f", "ac"))),)]
    else:
        nested = [(("d", "my dir", (("f", "a.c"),)),)]
    small_pool = [("f", "a.c"), ("f", "b.h"), ("f", "a.cc"), ("f", "notes.txt"), ("d", "src"), ("d", "lib.c"), ("d", "empty")]
    for k in range(1, max_root + 1):
        pool_k = root_pool if k <= 2 else small_pool
        for combo in itertools.combinations(pool_k, k):
            dirs = [e for e in combo if e[0] == "d" and e[1] != "empty"]
            files = [e for e in combo if e[0] == "f"] + [("d", "empty", ()) for e in combo if e == ("d", "empty")]
            options = []
            csets = child_sets if k <= 2 else [cs for cs in child_sets if len(cs) <= 1]
            for d in dirs:
                opts = [("d", d[1], tuple(("f", c) for c in cs)) for cs in csets if cs]
                opts += [("d", d[1], nst) for nst in nested]
                options.append(opts)
            for choice in itertools.product(*options):
                tree = tuple(files) + tuple(choice)
                if count_entries(tree) <= max_entries:
                    yield tree


def count_entries(tree):
    n = 0
    for e in tree:
        n += 1
        if e[0] == "d":
            n += count_entries(e[2])
    return n


def build(root, tree):
    for e in tree:
        p = os.path.join(root, e[1])
        if e[0] == "f":
            with open(p, "w") as f:
                f.write(content(e[1]) if e[1].endswith((".c", ".h")) else "not a C file\n")
        else:
            os.mkdir(p)
            build(p, e[2])


def paths_of(tree, prefix=""):
    """(relative path, kind) of every entry."""
    for e in tree:
        rel = os.path.join(prefix, e[1]) if prefix else e[1]
        yield rel, e[0]
        if e[0] == "d":
            yield from paths_of(e[2], rel)


def ignored(rel, gi):
    """The four .gitignore patterns of the alphabet, written from gitignore(5)."""
    gi = gi.strip()
    parts = rel.replace("\\", "/").split("/")
    if parts[0] == ".":
        parts = parts[1:]
    if gi == "*.h":
        return parts[-1].endswith(".h") or any(p.endswith(".h") for p in parts[:-1])
    if gi == "src/":
        return "src" in parts[:-1]
    if gi == "my file.c":
        return "my file.c" in parts
    return False


def expected(root, args, gitignore=None):
    """Reference model (os.walk based, independent of glob).  Returns (abort, selected basenames, rejected names)."""
    selected, rejected = [], []
    todo = args if args else ["."]
    for a in todo:
        p = os.path.join(root, a)
        if not os.path.exists(p):
            return True, [], []
        if os.path.isfile(p):
            if os.path.splitext(p)[1] in (".c", ".h"):
                selected.append(a)
            else:
                rejected.append(os.path.basename(a))
        elif os.path.isdir(p):
            for dirpath, dirnames, filenames in os.walk(p):
                for fn in filenames:
                    if os.path.splitext(fn)[1] in (".c", ".h") and not fn.startswith("."):
                        selected.append(os.path.relpath(os.path.join(dirpath, fn), root))
    if gitignore is not None:
        selected = [s for s in selected if not ignored(s, gitignore)]
    return False, sorted(os.path.basename(s) for s in selected), rejected


VERDICT = re.compile(r"^(.+): (OK|Error)!$")


def verdict_names(stdout):
    return sorted(os.path.basename(m.group(1)) for m in map(VERDICT.match, stdout.split("\n"))
                  if m and not m.group(0).startswith(("Error: ", "Notice: ")))


def arg_lists(tree, tier):
    ps = [p for p, k in paths_of(tree)]
    base = ps + [".", "missing.c"]
    extra_missing = ["missing.txt", "nodir", "src2/gone.h"]
    yield ()
    for a in base + extra_missing:
        yield (a,)
    for m in extra_missing:
        yield (ps[0], m)
        yield (m, ps[0])
    pairs = list(itertools.product(base, repeat=2))
    if tier == "quick" or len(base) > 6:
        pairs = [(a, b) for a, b in pairs if a == b or a in (".",) or b in ("missing.c",) or (a, b) == (ps[0], ps[-1])]
    for a, b in pairs:
        yield (a, b)
    if tier == "thorough" and len(base) <= 4:
        for t in itertools.product(base, repeat=3):
            yield t


def tree_task(task):
    """Worker: build one tree, run every argument list (and the --use-gitignore variants)."""
    tree, tier, with_git = task
    root = tempfile.mkdtemp(prefix="mcverif_c15_")
    out = []
    n = 0
    try:
        build(root, tree)
        for args in arg_lists(tree, tier):
            n += 1
            o = impl.run_cli_observed(["--no-colors"] + list(args), cwd=root)
            probs = judge(root, args, o, None)
            sub = None
            if probs:
                so = impl.run_cli_subprocess(["--no-colors"] + list(args), cwd=root)
                sub = (so["code"], verdict_names(so["stdout"]))
                if sub != (o["code"] if o["exc"] is None else 1, verdict_names(o["stdout"])):
                    probs.append(("HARNESS-inprocess-differs", f"{sub}"))
            for c, d in probs:
                out.append((list(args), None, c, d))
        if with_git:
            # the same rules may live in the top-level .gitignore or in the repository's own exclude file
            for gi, place in [(g, ".gitignore") for g in GITIGNORES] + [(g, ".git/info/exclude") for g in GITIGNORES if g]:
                gd = tempfile.mkdtemp(prefix="mcverif_c15g_")
                try:
                    build(gd, tree)
                    subprocess.run(["git", "init", "-q"], cwd=gd, capture_output=True)
                    os.makedirs(os.path.dirname(os.path.join(gd, place)), exist_ok=True)
                    with open(os.path.join(gd, place), "w") as f:
                        f.write(gi)
                    for args in [(), (".",)] + [(p,) for p, k in paths_of(tree)][:3]:
                        n += 1
                        o = impl.run_cli_observed(["--no-colors", "--use-gitignore"] + list(args), cwd=gd)
                        for c, d in judge(gd, args, o, gi):
                            out.append((list(args), gi, c + ("" if place == ".gitignore" else ":rules-in-info-exclude"), d))
                finally:
                    shutil.rmtree(gd, ignore_errors=True)
    finally:
        shutil.rmtree(root, ignore_errors=True)
    return n, out


def judge(root, args, o, gi):
    probs = []
    if o["exc"] is not None:
        return [("traceback:" + o["exc"][0], str(o["exc"]))]
    abort, sel, rej = expected(root, list(args), gi)
    if abort:
        if o["code"] in (0, None):
            probs.append(("missing-path-exit-0", f"exit {o['code']}"))
        return probs
    got = verdict_names(o["stdout"])
    if got != sel:
        extra = [x for x in got if got.count(x) > sel.count(x)]
        lost = [x for x in sel if sel.count(x) > got.count(x)]
        kind = "checked-twice" if extra and not lost else "not-checked" if lost and not extra else "wrong-set"
        probs.append((kind, f"verdict lines for {got}, expected {sel}"))
    for r in rej:
        if f"{r!r} is not valid C or C header file" not in o["stdout"]:
            probs.append(("rejection-missing", f"no rejection message for {r}"))
    if o["code"] != 0:
        probs.append(("exit-nonzero-on-clean", f"exit {o['code']} stdout {o['stdout'][-120:]!r}"))
    return probs


def feature(tree, args):
    """Input-side feature for finding signatures."""
    f = []
    for p, k in paths_of(tree):
        if k == "d" and os.path.splitext(p)[1] in (".c", ".h"):
            f.append("dir-with-c-suffix")
    shape = []
    kinds = dict(paths_of(tree))
    for a in args:
        shape.append("dot" if a == "." else "missing" if a == "missing.c" else "missing-other-suffix" if a in ("missing.txt", "nodir", "src2/gone.h") else
                     ("dir" if kinds.get(a) == "d" else "file:" + os.path.splitext(a)[1]))
    return "+".join(sorted(set(f))) or "plain", ",".join(shape) or "noargs"


def run(tier, seed):
    st = explore.Stats()
    all_trees = list(dict.fromkeys(trees(tier, seed)))
    git_every = 12 if tier == "quick" else 4
    tasks = [(t, tier, (i + seed) % git_every == 0 or any(e[1] in ("src", "my file.c", "b.h") for e in t) and i % 5 == 0)
             for i, t in enumerate(all_trees)]
    res = explore.pmap(tree_task, tasks, chunksize=2)
    failures = []
    for (tree, _, _), (n, out) in zip(tasks, res):
        st.runs += n
        for args, gi, clause, detail in out:
            if clause.startswith("HARNESS"):
                raise HarnessError(f"{tree} {args}: {detail}")
            feat, shape = feature(tree, args)
            failures.append(Failure("C15", f"{clause}:{feat}:{shape}" + (f":gitignore={gi.strip() or 'empty'}" if gi is not None else ""),
                                    f"tree {tree} args {args}: {detail}",
                                    {"tree": _jsonable(tree), "args": list(args), "gitignore": gi, "tier": tier,
                                     "place": ".git/info/exclude" if "rules-in-info-exclude" in clause else ".gitignore"}))
    st.states = len(all_trees)
    st.transitions = st.runs
    st.outcomes = set(all_trees)
    st.bump("trees", len(all_trees))
    st.bump("trees_with_gitignore_runs", sum(1 for t in tasks if t[2]))
    if len(all_trees) < 50:
        raise HarnessError("tree enumeration is vacuous")
    st.sample({"tree": _jsonable(all_trees[len(all_trees) // 2]), "args_example": [".", "missing.c"]})
    st.sample({"tree": _jsonable(all_trees[-1])})
    return CheckResult(
        st, failures,
        rule="every tree of the bounded alphabet (sibling sets, depth <= 2/3) x every argument list of length <= 2/3 over "
             "{each path, '.', a missing path, no argument}, plus --use-gitignore over 4 .gitignore files; each run through "
             "main() in process with cwd at the tree root (failures re-run as a real subprocess); oracle = os.walk-based "
             "reference model; states = trees, transitions = (tree, argument list) runs",
        exhaustive=True,
        bounds={"tier": tier, "root_entries": 2 if tier == "quick" else 3, "children": 1 if tier == "quick" else 2},
        alphabet={"file_names": len(ROOT_FILES) + len(CHILD_FILES), "dir_names": len(ROOT_DIRS), "gitignores": len(GITIGNORES)},
        assumptions=BASE_ASSUMPTIONS + ["hidden files and symlinks are outside the alphabet (DESIGN §4.15)",
                                        "git is available for the --use-gitignore runs"],
        distinct=len(all_trees),
    )


def _jsonable(tree):
    return [[e[0], e[1]] + ([_jsonable(e[2])] if e[0] == "d" else []) for e in tree]


def _from_json(t):
    return tuple((e[0], e[1]) + ((_from_json(e[2]),) if e[0] == "d" else ()) for e in t)


def replay(payload):
    tree = _from_json(payload["tree"])
    root = tempfile.mkdtemp(prefix="mcverif_c15_")
    try:
        build(root, tree)
        gi = payload.get("gitignore")
        extra = []
        if gi is not None:
            subprocess.run(["git", "init", "-q"], cwd=root, capture_output=True)
            place = payload.get("place", ".gitignore")
            os.makedirs(os.path.dirname(os.path.join(root, place)), exist_ok=True)
            open(os.path.join(root, place), "w").write(gi)
            extra = ["--use-gitignore"]
        o = impl.run_cli_observed(["--no-colors"] + extra + list(payload["args"]), cwd=root)
        feat, shape = feature(tree, payload["args"])
        return [Failure("C15", f"{c}:{feat}:{shape}", d, payload) for c, d in judge(root, payload["args"], o, gi)]
    finally:
        shutil.rmtree(root, ignore_errors=True)
