"""Deviation-bounded variants of carrier files for the position/losslessness oracles (DESIGN §4.9):
0, 1, 2 splices at token boundaries and inside comment/string tokens, punctuators respelled, and the
escape x spelling family inside literals."""
from __future__ import annotations

from .. import carriers, impl
from ..model import lexref

SPL = ["\\\n", "??/\n"]
ALT = {"{": ["<%", "??<"], "}": ["%>", "??>"], "[": ["<:", "??("], "]": [":>", "??)"], "#": ["%:", "??="]}


def escape_family():
    """quote + backslash spelling + every respellable / special character + quote."""
    out = []
    chars = ["<%", "%>", "<:", ":>", "%:", "??<", "??>", "??(", "??)", "??=", "??/", "??'", "??!", "??-", "\t", "n", "x41", "7",
             "\\", "'", '"', "?", " "]
    for q in ("'", '"'):
        for bs in ("\\", "??/"):
            for c in chars:
                out.append((f"escape:{q}{'trigraph-bs' if bs != chr(92) else 'bs'}", f"{q}{bs}{c}{q} a\tb"))
                out.append((f"escape2:{q}", f"x = {q}a{bs}{c}{q};\t/* c */ y"))
    return out


def spelling_in_text_family():
    """Every digraph and trigraph spelling inside every kind of textual token (string with and without prefix, character
    constant, line comment, block comment), at the start, in the middle and at the end of its text."""
    out = []
    sp = ["<%", "%>", "<:", ":>", "%:", "%:%:", "??<", "??>", "??(", "??)", "??=", "??'", "??!", "??-", "??", "?", "<", "%"]
    for c in sp:
        for label, fmt in (("string", '"{}"'), ("wide-string", 'L"{}"'), ("u8-string", 'u8"{}"'), ("char", "'{}'"), ("wide-char", "L'{}'"),
                           ("linecomment", "//{}\nz"), ("blockcomment", "/*{}*/")):
            for where, body in (("alone", c), ("start", c + "ab"), ("mid", "a" + c + "b"), ("end", "ab" + c), ("twice", c + " " + c)):
                out.append((f"spelling-in-text:{label}:{where}", "x = " + fmt.format(body) + " + y;\t/* k */ w\nnext"))
    return out


def geometry_family():
    """Multi-line tokens (block comments, strings with splices, line comments with splices) that start anywhere on a
    line, followed by more tokens on the line where they end."""
    out = []
    pres = ["", "a", "a ", "\ta", "ab\tc ", "x = 1; ", "\t\t"]
    bodies = ["x", "x\ny", "\n", "x\n\ty", "x\n\n", "\n*", "a b\nc d\ne"]
    for pre in pres:
        for b in bodies:
            out.append(("geometry:blockcomment", pre + "/*" + b + "*/ b\tc;\nd"))
            out.append(("geometry:blockcomment-glued", pre + "/*" + b + "*/b"))
        for b in ["x\\\ny", "\\\n", "x\\\n\\\ny"]:
            out.append(("geometry:string-splice", pre + '"' + b + '" b\tc;\nd'))
            out.append(("geometry:linecomment-splice", pre + "//" + b + "\nb\tc"))
            out.append(("geometry:char-splice", pre + "'" + b[:3] + "' b"))
    return out


def badchar_family():
    """Characters that start no token (ASCII and not, the byte-order mark included) at the first offset of the file,
    at the start of a later line, after a tab, between tokens, doubled."""
    out = []
    for ch in ["@", "$", "`", "\ufeff", "\u00e9", "\u2028", "\x7f", "\x01"]:
        name = "U+%04X" % ord(ch)
        for label, text in (("file-start", ch + "int\ta;\nb"), ("line-start", "int\ta;\n" + ch + "b c"), ("after-tab", "\t" + ch + "a b"),
                            ("between", "a " + ch + " b"), ("doubled", ch + ch + "a\tb"), ("glued", "a" + ch + "b"), ("alone", ch),
                            ("before-nl", "a" + ch + "\nb")):
            out.append((f"badchar:{name}:{label}", text))
    return out


def keyword_family():
    """Every keyword of C (and every entry of the tool's own keyword table) decorated so that it is an ordinary
    identifier: underscores in front / behind / both (the GNU alternate spellings among them), another case, a letter
    or digit glued on -- and the keyword itself, between other tokens."""
    kws = {"auto", "break", "case", "char", "const", "continue", "default", "do", "double", "else", "enum", "extern", "float",
           "for", "goto", "if", "int", "long", "register", "return", "short", "signed", "sizeof", "static", "struct", "switch",
           "typedef", "union", "unsigned", "void", "volatile", "while", "inline", "restrict", "NULL", "asm", "typeof"}
    try:
        from norminette.lexer.dictionary import keywords
        kws |= set(keywords)
    except Exception:  # noqa: BLE001
        pass
    out = []
    for kw in sorted(kws):
        for label, w in (("plain", kw), ("__kw", "__" + kw), ("__kw__", "__" + kw + "__"), ("_kw", "_" + kw), ("kw_", kw + "_"),
                         ("kw__", kw + "__"), ("swapcase", kw.swapcase()), ("capital", kw.capitalize()), ("kwx", kw + "x"), ("xkw", "x" + kw),
                         ("kw1", kw + "1"), ("_kw_", "_" + kw + "_")):
            out.append((f"keyword:{label}", f"a {w} b;\n{w}\t(c)"))
    return out


def cases(tier, seed):
    out = escape_family() + geometry_family() + badchar_family() + keyword_family() + spelling_in_text_family()
    cs = carriers.conforming("quick", cap=10 if tier == "quick" else 60)
    from . import diffcommon
    files = [(e["fname"], e["text"], 12) for e in diffcommon.enriched()] + [(c["fname"], c["text"], 12) for c in cs]
    # the sample inputs of norminette's own tests (constructs the model does not derive), as they are and varied
    from .. import corpus
    smp = corpus.samples() if tier != "quick" else corpus.sample_slice(seed, 3)
    files += [(fn, t, 0) for fn, t in smp]
    out += [(f"sample:{fn}", t) for fn, t in corpus.samples()]
    for fname, text, first_line in files:
        toks, errs, exc = impl.lex(text, fname)
        if toks is None:
            continue
        al = lexref.align(text, toks, set())
        if not al["ok"]:
            continue
        spans = al["spans"]
        body0 = next((i for i, t in enumerate(toks) if t.pos[0] >= first_line), 0)
        idx = list(range(body0, len(toks)))
        step = 7 if tier == "quick" else 2
        # one splice at a token boundary
        for k, i in enumerate(idx[::step]):
            s = SPL[k % 2]
            off = spans[i][0]
            out.append((f"splice-before:{toks[i].type}", text[:off] + s + text[off:]))
        # one splice inside a comment / string token
        for i in idx:
            if toks[i].type in ("COMMENT", "MULT_COMMENT", "STRING") and spans[i][1] - spans[i][0] >= 5:
                for s in SPL:
                    off = spans[i][0] + 3
                    if text[off - 1] == "\\" or text[off - 3:off] == "??/":
                        continue
                    out.append((f"splice-inside:{toks[i].type}", text[:off] + s + text[off:]))
        # two splices
        for a, b in zip(idx[3::step * 2], idx[5::step * 2]):
            oa, ob = spans[a][0], spans[b][0]
            if oa < ob:
                out.append(("two-splices", text[:oa] + SPL[0] + text[oa:ob] + SPL[1] + text[ob:]))
        # every respellable punctuator respelled (digraph, trigraph), tokens stay apart
        for which in (0, 1):
            t2 = []
            last = 0
            for i in idx:
                if toks[i].value is None and lexref.token_text(toks[i]) in ALT and spans[i][1] - spans[i][0] == 1:
                    t2.append(text[last:spans[i][0]] + ALT[lexref.token_text(toks[i])][which])
                    last = spans[i][1]
            t2.append(text[last:])
            out.append((f"respelled-all:{'digraph' if which == 0 else 'trigraph'}", "".join(t2)))
    return out
