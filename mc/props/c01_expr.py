"""Nested enumerations of C01 (DESIGN §4.1 'what is enumerated'): every expression of the grammar
with <= 1 (quick) / <= 2 (thorough) binary operators in every expression context; every function
signature shape; every declaration shape; constants of §4.11 in three contexts."""
from __future__ import annotations

import itertools

from .. import explore, progrun
from ..findings import Failure
from ..model import norm
from ..model.norm import (P, SP, KW, V, C, CH, S, binop, call, paren, index, arrow, dot, unary, deref, cast,
                          sizeof, post, pre, assign, ret, ctrl, IND, render, Line)

BINOPS = ["+", "-", "*", "/", "%", "<", ">", "<=", ">=", "==", "!=", "&&", "||", "&", "|", "^", "<<", ">>"]
ASSIGNOPS = ["=", "+=", "-=", "*=", "/=", "%=", "&=", "|=", "^=", "<<=", ">>="]


def i_atoms():
    """(label, pieces, is_I1) -- int-valued atoms covering every atom kind / first / last token class."""
    return [
        ("name", V("n"), True), ("const", C("42"), True), ("char", CH("'a'"), False),
        ("index", index(V("p"), V("n")), True), ("arrow", arrow(V("lst"), "len"), True),
        ("derefdot", dot(paren(deref(V("lst"))), "len"), True), ("dot", dot(V("pt"), "x"), True),
        ("call1", call("ft_f", [V("n")]), True), ("call0", call("ft_g", []), True),
        ("deref", deref(V("p")), False), ("neg", unary("-", V("n")), False), ("not", unary("!", V("n")), False),
        ("bnot", unary("~", V("n")), False), ("notp", unary("!", V("p")), False), ("paren", paren(V("n")), True),
        ("cast", cast("int", 0, V("c")), False), ("sizeoft", sizeof(norm.type_pieces("int")), False),
        ("sizeofn", sizeof(V("n")), False), ("postinc", post(V("n"), "++"), False), ("postdec", post(V("n"), "--"), False),
        ("preinc", pre("++", V("n")), False), ("predec", pre("--", V("n")), False), ("hex", C("0x1F"), True),
        ("ulong", C("10UL"), True), ("float", C("1.5f"), True), ("negconst", unary("-", C("1")), False),
        ("index2", index(V("p"), binop(V("n"), "+", C("1"))), True),
        ("castuc", cast("unsigned char", 0, V("c")), False), ("parenbin", paren(binop(V("n"), "+", C("1"))), True),
        ("callnest", call("ft_f", [call("ft_g", [])]), True),
    ]


def p_atoms():
    return [
        ("pname", V("p")), ("null", [P("null", "NULL")]), ("string", S('"abc"')), ("addr", unary("&", V("n"))),
        ("castp", cast("char", 1, V("p"))), ("arrowp", arrow(V("lst"), "next")), ("padd", binop(V("p"), "+", V("n"))),
        ("pcall", call("ft_h", [V("p")])), ("addridx", unary("&", index(V("p"), V("n")))),
    ]


CONTEXTS = ["assign", "addassign", "if", "while", "return", "arg0", "arg1", "index"]
ASSIGNING_CTX = ("assign", "addassign", "index")
SIDE_EFFECT = ("postinc", "postdec", "preinc", "predec")


def _allowed(ctx, *labels):
    """The Norm forbids two assignments on one line: ++/-- count as assignments, so an expression
    may hold at most one of them, and none at all when the statement itself assigns."""
    n = sum(1 for l in labels if l in SIDE_EFFECT)
    return n == 0 or (n == 1 and ctx not in ASSIGNING_CTX)


def stmt_lines(ctx, e):
    """Body lines (Lines) holding expression `e` (pieces) in context `ctx`."""
    if ctx == "assign":
        return [norm.stmt_line(1, assign(V("n"), "=", e), "simple")]
    if ctx == "addassign":
        return [norm.stmt_line(1, assign(V("n"), "+=", e), "simple")]
    if ctx in ("if", "while"):
        return [norm.stmt_line(1, ctrl(ctx, e), "ctrl"), norm.stmt_line(2, norm.SIMPLE["call"](), "simple")]
    if ctx == "return":
        return [norm.stmt_line(1, ret(e), "return")]
    if ctx == "arg0":
        return [norm.stmt_line(1, call("ft_f", [e, V("n")]) + [P("semi", ";")], "simple")]
    if ctx == "arg1":
        return [norm.stmt_line(1, call("ft_f", [V("n"), e]) + [P("semi", ";")], "simple")]
    if ctx == "index":
        return [norm.stmt_line(1, assign(index(V("p"), e), "=", C("0")), "simple")]
    raise KeyError(ctx)


FUNC_HEAD = "int\tft_test(int n, char *p, char c, t_list *lst)\n{\n\tt_point\tpt;\n\n\tpt.x = 0;\n"
FUNC_TAIL = "\treturn (n);\n}\n"


def body_for(ctx, e):
    return FUNC_HEAD + render(stmt_lines(ctx, e)) + FUNC_TAIL


def expr_cases(tier, seed):
    """Yield (label, ctx, expr_pieces)."""
    ia, pa = i_atoms(), p_atoms()
    nctx = len(CONTEXTS)
    # atoms alone, every context
    for lab, e, _ in ia:
        for ctx in CONTEXTS:
            if _allowed(ctx, lab):
                yield (f"atom:{lab}", ctx, e)
    for lab, e in pa:
        for ctx in ("if", "while", "arg0", "arg1"):
            yield (f"patom:{lab}", ctx, e)
        yield (f"patom:{lab}:cmpnull", "if", binop(e, "==", [P("null", "NULL")]))
        yield (f"patom:{lab}:not", "while", unary("!", e) if lab not in ("addr", "castp", "padd", "addridx") else unary("!", paren(e)))
    # one binary operator over the full pool
    k = 0
    for (la, a, _), (lb, b_, _), op in itertools.product(ia, ia, BINOPS):
        k += 1
        if tier == "thorough":
            ctxs = CONTEXTS
        else:
            ctxs = [CONTEXTS[(k + seed) % nctx]]
        for ctx in ctxs:
            if _allowed(ctx, la, lb):
                yield (f"bin:{la}{op}{lb}", ctx, binop(a, op, b_))
    for (la, a), (lb, b_) in itertools.product(pa, pa):
        for op in ("==", "!="):
            yield (f"pbin:{la}{op}{lb}", "if", binop(a, op, b_))
    # compound assignments
    for op in ASSIGNOPS:
        for lab, e, _ in ia:
            if lab not in SIDE_EFFECT:
                yield (f"asg:{op}:{lab}", None, norm.stmt_line(1, assign(V("n"), op, e), "simple"))
    # unary / cast / paren nesting <= 2
    i1 = [(l, e) for l, e, ok in ia if ok]
    for (l, e) in i1:
        for u in ("-", "!", "~"):
            yield (f"un:{u}{l}", CONTEXTS[(k + seed) % nctx], unary(u, e))
            yield (f"un:{u}({l})", "assign", unary(u, paren(e)))
            k += 1
        yield (f"cast:{l}", "assign", cast("long", 0, e))
        yield (f"paren2:{l}", "return", paren(paren(e)))
    if tier == "thorough":
        small = [ia[i] for i in (0, 1, 3, 7, 9, 10, 14, 15, 18, 20)]
        ops = ["+", "-", "*", "<", "==", "&&", "||", "&", "<<", "%"]
        for (la, a, _), (lb, b_, _), (lc, c_, _) in itertools.product(small, small, small):
            for o1, o2 in itertools.product(ops, ops):
                k += 1
                ctx = CONTEXTS[(k + seed) % nctx]
                if not _allowed(ctx, la, lb, lc):
                    continue
                yield (f"bin2l:{la}{o1}{lb}{o2}{lc}", ctx, binop(binop(a, o1, b_), o2, c_))
                yield (f"bin2p:{la}{o1}({lb}{o2}{lc})", ctx, binop(a, o1, paren(binop(b_, o2, c_))))
                yield (f"bin2q:({la}{o1}{lb}){o2}{lc}", ctx, binop(paren(binop(a, o1, b_)), o2, c_))


def sig_cases(tier):
    """Function signature shapes x {definition, prototype}."""
    rtypes = [("", "int", 0), ("", "char", 1), ("", "void", 0), ("static ", "int", 0), ("", "unsigned int", 0),
              ("", "t_list", 1), ("", "char", 2), ("static ", "unsigned long long", 0), ("", "struct s_point", 1),
              ("", "const char", 1), ("", "size_t", 0), ("", "long long", 0)]
    ptypes = [("int", 0, ""), ("char", 1, ""), ("const char", 1, ""), ("char", 2, ""), ("t_list", 1, ""),
              ("unsigned int", 0, ""), ("struct s_point", 1, ""), ("char", 0, "[]"), ("size_t", 0, ""),
              ("void", 1, ""), ("long long", 0, ""), ("const t_list", 1, "")]
    names = ["a", "bb", "ccc", "dddd"]
    plists = [[]]
    for n in (1, 2, 3, 4):
        if tier == "thorough" and n <= 2:
            for combo in itertools.product(range(len(ptypes)), repeat=n):
                plists.append([(ptypes[i][0], ptypes[i][1], names[j], ptypes[i][2]) for j, i in enumerate(combo)])
        else:
            for r in range(len(ptypes)):
                plists.append([(ptypes[(r + j * 5) % len(ptypes)][0], ptypes[(r + j * 5) % len(ptypes)][1], names[j],
                                ptypes[(r + j * 5) % len(ptypes)][2]) for j in range(n)])
    for (prefix, typ, stars) in rtypes:
        for pl in plists:
            sig = norm.sig_line(prefix, typ, stars, "ft_subject", pl)
            if norm.line_width("".join(p.text for p in sig)) > 80:
                continue
            retv = "\treturn ;\n" if (typ == "void" and stars == 0) else "\treturn (0);\n"
            yield (f"sigdef:{prefix}{typ}{'*' * stars}/{len(pl)}", "".join(p.text for p in sig) + "\n{\n" + retv + "}\n")
            w = len((prefix + typ).strip())
            psig = norm.sig_line(prefix, typ, stars, "ft_subject", pl, proto_col=norm.next_stop(w + 1))
            ptxt = "".join(p.text for p in psig) + ";\n"
            if norm.line_width(ptxt.rstrip("\n")) > 80:
                continue
            yield (f"sigproto:{prefix}{typ}{'*' * stars}/{len(pl)}", ptxt + "\nint\tmain(void)\n{\n\treturn (0);\n}\n")


def fptr_cases(tier):
    """Function-pointer parameters (conforming: named, at most 4 parameters counted at the top level), function-pointer
    locals and array dimensions holding a constant expression."""
    fps = ["int (*cmp)(int, int)", "void (*f)(void *)", "char *(*conv)(const char *, int, int)", "void (*del)(void *, size_t)",
           "int (*get)(void)", "t_list *(*step)(t_list *, int, char, long)"]
    plain = ["int a", "char *bb", "t_list *lst", "size_t len"]
    for k, fp in enumerate(fps):
        for nplain in (0, 1, 2, 3):
            for pos in ("last", "first", "mid"):
                if pos == "mid" and nplain < 2 or pos == "first" and nplain == 0:
                    continue
                ps = plain[:nplain]
                pl = ps + [fp] if pos == "last" else [fp] + ps if pos == "first" else ps[:1] + [fp] + ps[1:]
                for ret, retv in (("int", "\treturn (0);\n"), ("void", "\treturn ;\n"), ("static char", "\treturn (0);\n")):
                    star = "*" if ret.endswith("char") else ""
                    d = f"{ret}\t{star}ft_subject({', '.join(pl)})"
                    if norm.line_width(d) <= 80:
                        yield (f"fptr:def:{k}/{len(pl)}:{pos}", d + "\n{\n" + retv + "}\n")
                    w = len(ret)
                    tabs = "\t" * ((norm.next_stop(w + 1) - 1 - w + 3) // 4)
                    pr = f"{ret}{tabs}{star}ft_subject({', '.join(pl)});"
                    if norm.line_width(pr) <= 80:
                        yield (f"fptr:proto:{k}/{len(pl)}:{pos}", pr + "\n\nint\tmain(void)\n{\n\treturn (0);\n}\n")
        if fps.index(fp) < 2:
            two = [fp, fps[(k + 1) % len(fps)].replace("(*", "(*z")]
            d = f"int\tft_subject({', '.join(two)})"
            if norm.line_width(d) <= 80:
                yield (f"fptr:def:two:{k}", d + "\n{\n\treturn (0);\n}\n")
    for dims in ("[SIZE * 2]", "[SIZE + 1]", "[2 * SIZE]", "[ROWS][COLS * 2]", "[SIZE / 2]", "[SIZE - 1]", "[(SIZE + 1) * 2]", "[SIZE % 4][2]",
                 "[sizeof(int) * 2]", "[SIZE << 1]", "[SIZE & 7]"):
        for t, tabs in (("char", "\t"), ("int", "\t\t"), ("unsigned int", "\t")):
            yield (f"arrdim:{dims}:{t}", f"int\tft_test(int n)\n{{\n\t{t}{tabs}buf{dims};\n\n\tbuf[0] = n;\n\treturn (n);\n}}\n"
                   if t != "int" else f"int\tft_test(int n)\n{{\n\tint\t\tbuf{dims};\n\n\tbuf[0] = n;\n\treturn (n);\n}}\n")
        yield (f"arrdim:global:{dims}", f"static char\tg_buf{dims};\n\nint\tmain(void)\n{{\n\treturn (0);\n}}\n")
    # calls through a function pointer as statements, followed by other statements
    head = "int\tft_apply(void (*f)(int, char *), int n, char *p)\n{\n"
    for k, body in enumerate(("\t(*f)(n, &p[n]);\n\tn = n + 1;\n\treturn (n);\n", "\t(*f)(n, p);\n\t(*f)(1, \"s\");\n\treturn (n);\n",
                              "\tint\ti;\n\n\ti = 0;\n\t(*f)(i, &p[i]);\n\twhile (i < n)\n\t\t(*f)(i++, p);\n\treturn (i);\n",
                              "\tif (n)\n\t\t(*f)(n, p);\n\telse\n\t\t(*f)(0, p);\n\tf(n, p);\n\treturn (0);\n")):
        yield (f"fptr:call:{k}", head + body + "}\n")
    for lp in ("int\t\t(*cmp)(int, int);", "void\t(*f)(void *);", "char\t*(*conv)(const char *, int);"):
        yield (f"fptr:local:{lp[:8]}", "int\tft_test(int n)\n{\n\t" + lp + "\n\n\treturn (n);\n}\n")


def proto_pair_cases(tier):
    """Two (three) aligned prototypes whose return types differ in width and in number of words: the name column is
    the first tab stop after the widest type."""
    types = [("int", 0), ("char", 1), ("void", 0), ("static int", 0), ("unsigned int", 0), ("static unsigned char", 0),
             ("static long long", 0), ("static const int", 0), ("static unsigned long", 0), ("const struct s_point", 1), ("t_list", 1),
             ("unsigned long long", 0), ("static unsigned int", 0), ("const unsigned char", 1), ("size_t", 0), ("struct s_point", 0),
             ("static const unsigned long long", 0), ("long", 0)]
    def proto(t, stars, name, col):
        w = len(t)
        ntabs = 0
        c = w + 1
        while c < col:
            c = norm.next_stop(c)
            ntabs += 1
        return t + "\t" * max(1, ntabs) + "*" * stars + name + "(int n);"
    for (t1, s1), (t2, s2) in itertools.product(types, repeat=2):
        col = max(norm.next_stop(len(t1) + 1), norm.next_stop(len(t2) + 1))
        a, b_ = proto(t1, s1, "ft_one", col), proto(t2, s2, "ft_two", col)
        if norm.line_width(a) <= 80 and norm.line_width(b_) <= 80:
            yield (f"protopair:{t1}|{t2}", a + "\n" + b_ + "\n\nint\tmain(void)\n{\n\treturn (0);\n}\n")
    for (t1, s1), (t2, s2), (t3, s3) in zip(types, types[5:] + types[:5], types[11:] + types[:11]):
        col = max(norm.next_stop(len(t) + 1) for t in (t1, t2, t3))
        yield (f"prototriple:{t1}|{t2}|{t3}", "\n".join(proto(t, s_, nm, col) for (t, s_), nm in
                                                      zip(((t1, s1), (t2, s2), (t3, s3)), ("ft_one", "ft_two", "ft_three")))
               + "\n\nint\tmain(void)\n{\n\treturn (0);\n}\n")


def decl_cases(tier):
    types = ["int", "char", "long", "short", "float", "double", "unsigned int", "unsigned char", "unsigned long long",
             "long long", "long int", "signed char", "size_t", "ssize_t", "t_list", "struct s_point", "enum e_color",
             "union u_data", "const int", "const char", "unsigned long", "t_point"]
    declrs = [(0, ""), (1, ""), (2, ""), (0, "[10]"), (0, "[4][4]"), (1, "[3]"), (0, "[0x10]"), (0, "[BUFFER_SIZE]"),
              (3, "")]
    for t in types:
        for stars, arr in declrs:
            col = norm.min_col(t, 1)
            pcs = norm.decl_pieces(t, stars, "var", "", col)
            txt = "".join(p.text for p in pcs) + arr + ";\n"
            yield (f"decl:{t}{'*' * stars}{arr}", "int\tft_test(int n)\n{\n" + txt + "\n\treturn (n);\n}\n")
    # aligned pairs (the wider type decides the column)
    for t1, t2 in itertools.product(types, types):
        col = max(norm.min_col(t1, 1), norm.min_col(t2, 1))
        a = norm.decl_pieces(t1, 0, "aa", "", col)
        b = norm.decl_pieces(t2, 1, "bb", "", col)
        if a is None or b is None:
            continue
        txt = "".join(p.text for p in a) + ";\n" + "".join(p.text for p in b) + ";\n"
        yield (f"declpair:{t1}|{t2}", "int\tft_test(int n)\n{\n" + txt + "\n\treturn (n);\n}\n")


def const_cases(tier):
    from ..model import literals

    n = 2 if tier == "quick" else 3
    seen = set()
    gens = itertools.chain(literals.valid_integers(n, 2, "0bBe9", 3), literals.valid_floats(1, 1),
                           literals.valid_chars(), literals.valid_strings(1, 1))
    for label, lit in gens:
        if lit in seen:
            continue
        seen.add(lit)
        is_str = lit.endswith('"')
        if is_str:
            yield (f"const:{label}", FUNC_HEAD + f"\tft_puts({lit});\n" + FUNC_TAIL)
            continue
        yield (f"const:{label}", FUNC_HEAD + f"\tn = {lit};\n" + FUNC_TAIL)
        if len(seen) % 3 == 0:
            yield (f"const:{label}:ret", FUNC_HEAD + f"\tif (n == {lit})\n\t\treturn ({lit});\n" + FUNC_TAIL)
        if len(seen) % 5 == 0:
            yield (f"const:{label}:def", f"#define VALUE {lit}\n\nint\tmain(void)\n{{\n\treturn (0);\n}}\n")


def all_cases(tier, seed):
    for label, ctx, e in expr_cases(tier, seed):
        if ctx is None:
            body = FUNC_HEAD + render([e]) + FUNC_TAIL
        else:
            body = body_for(ctx, e)
        yield (f"{label}@{ctx}", body)
    yield from sig_cases(tier)
    yield from decl_cases(tier)
    yield from fptr_cases(tier)
    yield from proto_pair_cases(tier)
    yield from const_cases(tier)


def explore_expressions(tier, seed, st, failures):
    cases = list(all_cases(tier, seed))
    tasks = [(".c", "test.c", body) for _, body in cases]
    res = explore.pmap(progrun.eval_body, tasks, chunksize=32)
    st.runs += len(cases)
    st.transitions += len(cases)
    kinds = {}
    for (label, body), (errs, sigs, exc, status, stdout) in zip(cases, res):
        k = label.split(":")[0]
        kinds[k] = kinds.get(k, 0) + 1
        payload = {"kind": "expr", "label": label, "body": body}
        if exc is not None:
            failures.append(Failure("C01", f"exception:{exc[0]}@{k}", f"{exc} on {label}", payload))
        for d, sig in zip(errs, sigs):
            failures.append(Failure("C01", "spurious:" + sig, f"{d[1]} at line {d[2]} col {d[3]} in {label}: "
                                    f"{body.splitlines()[d[2] - 13] if d[2] and 0 <= d[2] - 13 < len(body.splitlines()) else ''!r}",
                                    payload))
        if stdout:
            failures.append(Failure("C01", "stray-output", f"stray output {stdout[:40]!r}", payload))
    for k, v in kinds.items():
        st.bump("nested:" + k, v)
    st.sample({"nested_case": cases[len(cases) // 2][0], "body": cases[len(cases) // 2][1]})


def replay(payload):
    errs, sigs, exc, status, stdout = progrun.eval_body((".c", "test.c", payload["body"]))
    out = []
    if exc is not None:
        out.append(Failure("C01", f"exception:{exc[0]}", str(exc), payload))
    for d, sig in zip(errs, sigs):
        out.append(Failure("C01", "spurious:" + sig, f"{d}", payload))
    if stdout:
        out.append(Failure("C01", "stray-output", stdout[:40], payload))
    return out
