def explore_expressions(tier, seed, st, failures):
    return


def replay(payload):
    return []
