"""C11 -- C literals are classified as C defines them (DESIGN §4.11; grammar enumeration)."""
from __future__ import annotations

from .. import explore, impl
from ..common import CheckResult, BASE_ASSUMPTIONS, HarnessError
from ..findings import Failure
from ..model import literals

LIT_TYPES = ("CONSTANT", "CHAR_CONST", "STRING")
PRE = ["", "(", "=", " ", ",", "-"]
POST = ["", ";", ")", ",", "]", " ", "\n"]


def contexts(tier):
    if tier == "thorough":
        return [(a, b) for a in PRE for b in POST]
    return [("", b) for b in POST] + [(a, "") for a in PRE[1:]] + [("(", ")"), ("-", ";")]


def check_valid(label, lit, pre, post):
    text = pre + lit + post
    toks, errs, exc = impl.lex(text)
    if exc is not None:
        return f"exception:{exc[0]}", f"{exc}"
    names = sorted({e.name for e in errs})
    want = (1 if pre else 0) + 1 + (1 if post else 0)
    lits = [t for t in toks if t.type in LIT_TYPES]
    if len(toks) != want or len(lits) != 1 or lits[0].value != lit:
        got = " ".join(f"{t.type}" + (f"={t.value}" if t.value else "") for t in toks[:6])
        prob = "split" if len(toks) > want else "tokens"
        return f"{prob}" + ("+" + "+".join(names) if names else ""), f"tokens: {got}"
    if names:
        return "+".join(names), "lexical diagnostic on a valid literal"
    return None


def check_malformed(family, diag, lit, tail, pre):
    text = pre + lit + tail
    toks, errs, exc = impl.lex(text)
    if exc is not None:
        return f"exception:{exc[0]}", f"{exc}"
    names = sorted({e.name for e in errs})
    npre = len(pre)
    idx = npre
    if len(toks) <= idx or (toks[idx].value or "") != lit or len(toks) != npre + 1 + len(tail):
        got = " ".join(f"{t.type}" + (f"={t.value}" if t.value else "") for t in toks[:6])
        return "not-one-token" + ("+" + "+".join(names) if names else ""), f"tokens: {got}"
    if diag not in names:
        return "missing-" + diag + ("(got " + "+".join(names) + ")" if names else ""), f"diagnostics: {names}"
    return None


def work(chunk):
    out = []
    n = 0
    for item in chunk:
        if item[0] == "v":
            _, label, lit, ctxs = item
            for pre, post in ctxs:
                n += 1
                r = check_valid(label, lit, pre, post)
                if r:
                    out.append((f"valid:{label}:{r[0]}", pre + lit + post, r[1], item[:3] + ((pre, post),)))
        else:
            _, family, diag, lit, tail = item
            for pre in ("", " ", "= "):
                n += 1
                r = check_malformed(family, diag, lit, tail, pre)
                if r:
                    out.append((f"malformed:{family}:{r[0]}", pre + lit + tail, r[1], item + (pre,)))
    return n, out


def bounds(tier):
    if tier == "thorough":
        return dict(hex_extra_pool="0bBe9", hex_extra_len=4, int_digits=4, hex_digits=3, float_digits=2, exp_digits=2, hexfloat_digits=2,
                    string_full=2, string_small=3, malformed_digits=4)
    return dict(hex_extra_pool="0bBe9", hex_extra_len=3, int_digits=3, hex_digits=2, float_digits=2, exp_digits=1, hexfloat_digits=1,
                string_full=1, string_small=2, malformed_digits=3)


def items(tier):
    b = bounds(tier)
    ctxs = contexts(tier)
    for label, lit in literals.valid_integers(b["int_digits"], b["hex_digits"], b["hex_extra_pool"],
                                              b["hex_extra_len"]):
        yield ("v", label, lit, ctxs)
    for label, lit in literals.valid_floats(b["float_digits"], b["exp_digits"]):
        yield ("v", label, lit, ctxs)
    for label, lit in literals.valid_hexfloats(b["hexfloat_digits"]):
        yield ("v", label, lit, ctxs)
    for label, lit in literals.valid_chars():
        yield ("v", label, lit, ctxs)
    for label, lit in literals.valid_long():
        yield ("v", label, lit, ctxs)
    for label, lit in literals.valid_strings(b["string_full"], b["string_small"]):
        yield ("v", label, lit, ctxs)
    for fam, diag, lit, tail in literals.malformed(b["malformed_digits"]):
        yield ("m", fam, diag, lit, tail)


def run(tier, seed):
    st = explore.Stats()
    its = list(items(tier))
    nvalid = sum(1 for i in its if i[0] == "v")
    nmal = len(its) - nvalid
    chunks = list(explore.chunked(its, 400))
    res = explore.pmap(work, chunks, chunksize=1)
    merged = {}
    for n, out in res:
        st.runs += n
        for sig, text, detail, item in out:
            merged.setdefault(sig, []).append((text, detail, item))
    prods = {}
    for i in its:
        prods[i[1]] = prods.get(i[1], 0) + 1
    failures = []
    for sig, lst in sorted(merged.items()):
        lst.sort(key=lambda x: (len(x[0]), x[0]))
        text, detail, item = lst[0]
        failures.append(Failure("C11", sig, f"{text!r}: {detail} ({len(lst)} cases)",
                                {"item": list(item)}))
    st.states = len(its)
    st.transitions = st.runs
    st.outcomes = set(prods)
    st.bump("valid_literals", nvalid)
    st.bump("malformed_literals", nmal)
    for k, v in sorted(prods.items()):
        if k.startswith("M"):
            st.bump("family:" + k, v)
    if nvalid < 1000 or nmal < 100:
        raise HarnessError("literal enumeration is vacuous")
    step = max(1, len(its) // 6)
    for i in its[::step][:6]:
        st.sample({"kind": i[0], "production": i[1], "literal": i[2] if i[0] == "v" else i[3]})
    return CheckResult(
        st, failures,
        rule="every derivation of the C11 6.4.4 literal grammar (mc/model/literals.py) within the digit-string bounds, "
             "each in every listed (preceding, following) context; every member of malformed families M1-M9; "
             "states = literals, transitions = (literal, context) lexer runs; distinct = grammar productions covered",
        exhaustive=True, bounds=bounds(tier),
        alphabet={"contexts": len(contexts(tier)), "int_suffixes": len(literals.int_suffixes()),
                  "float_suffixes": len(literals.FLOAT_SUFFIXES), "prefixes": len(literals.PREFIXES)},
        assumptions=BASE_ASSUMPTIONS + ["the literal grammar of mc/model/literals.py is a faithful subset of C11 6.4.4 "
                                        "plus the extensions named by the property"],
        distinct=len(prods),
    )


def replay(payload):
    item = payload["item"]
    if item[0] == "v":
        _, label, lit, (pre, post) = item
        r = check_valid(label, lit, pre, post)
        return [Failure("C11", f"valid:{label}:{r[0]}", r[1], payload)] if r else []
    _, family, diag, lit, tail, pre = item
    r = check_malformed(family, diag, lit, tail, pre)
    return [Failure("C11", f"malformed:{family}:{r[0]}", r[1], payload)] if r else []
