"""C07 -- every statement examined exactly once; nothing skipped silently (DESIGN §4.7, shape S)."""
from __future__ import annotations

from .. import explore, progrun, impl
from ..common import CheckResult, BASE_ASSUMPTIONS, HarnessError
from ..findings import Failure
from ..model import norm
from . import c01

FRAGMENTS = [")", "]", ".", "->", "+", "* ", "3", '"s"', "= 3", ":", "sizeof"]


STRICT_FRAGMENTS = (")", "]", ".", "->", "= 3", ":", "3", '"s"')


def _owner(trace, fl):
    """(primary rule, first line) of the statement that contains line fl."""
    owner = (None, None)
    for x in trace or []:
        if x[3] is not None and x[3][0] <= fl:
            owner = (x[2], x[3][0])
    return owner


def _absorbed_sig(owner, following, preceding=(), own_line=True):
    """Call-site signature of a swallowed fragment: the rule that claimed it and the kind of the first line after it
    that is neither empty nor a comment (what the rule was really recognising).  IsDeclaration is the catch-all of the
    rule list (anything up to the next ';' that holds an identifier): for it the rule alone is the call site."""
    if owner == "IsDeclaration":
        return "absorbed-silently:OK:by=IsDeclaration(catch-all)"
    if not own_line:
        # the statement started on an earlier line: the fragment was taken for its continuation
        prv = next((l.kind for l in reversed(list(preceding)) if l.kind not in ("empty", "comment")), "start")
        return f"absorbed-silently:OK:by={owner}:after={prv}"
    nxt = next((l.kind for l in following if l.kind not in ("empty", "comment")), "eof")
    return f"absorbed-silently:OK:by={owner}:before={nxt}"


def frag_task(task):
    """Worker: insert one fragment line and evaluate the conditional oracle.
    task = (ftype, ids, tier, fragment, mode) ; mode in ('mid', 'last-nl', 'last-nonl')"""
    ftype, ids, tier, frag, mode = task
    b = progrun.BOUNDS[tier]
    fname = "test" + ftype
    rp = norm.replay(ftype, ids, b, fname, with_preamble=False)
    comp = norm.completion(rp.st)
    if mode == "mid":
        body = norm.render(rp.lines) + frag + "\n" + norm.render(comp)
    else:
        body = norm.render(rp.lines + comp) + frag + ("\n" if mode == "last-nl" else "")
    pre, npre, pretext = progrun.pre_tokens(ftype, fname)
    r = impl.run_text(fname, body, pre_tokens=pre, line0=npre + 1, trace=True, pretext=pretext)
    probs, nseg, unrec = progrun.segmentation(r)
    out = {"unrec": unrec, "exc": r.exc, "status": r.status, "stdout": r.stdout, "seg": probs, "viol": None}
    if r.exc is not None and r.exc[0] != "CParsingError":
        out["viol"] = f"internal:{r.exc[0]}"
    elif unrec > 0 and r.exc is None:
        out["viol"] = "dropped-silently" + (":OK" if r.status == "OK" else ":Error") + \
                      (":stray-output" if r.stdout else "")
    elif r.exc is None and r.stdout:
        out["viol"] = "stray-output"
    elif r.exc is None and r.status == "OK" and frag in STRICT_FRAGMENTS:
        # the fragment cannot start or continue any statement at a statement boundary, whatever follows: a rule that
        # absorbs it into its own statement drops it just as silently as the unrecognised path would
        fl = npre + len(rp.lines) + 1 if mode == "mid" else npre + len(rp.lines) + len(comp) + 1
        owner, oline = _owner(r.trace, fl)
        out["viol"] = _absorbed_sig(owner, comp if mode == "mid" else [], rp.lines if mode == "mid" else rp.lines + comp, oline == fl)
    elif probs:
        out["viol"] = "partition:" + probs[0].split(" ")[0]
    if out["viol"]:
        out["text"] = pretext + body
    return out


def line_task(task):
    """Worker: every strict fragment as a line of its own (indented like the line that follows) at every line boundary
    of one conforming carrier -- inside bodies, between a head and its brace, between members of a type block.  The
    carrier alone is `OK!`; with the fragment the run must not end in `OK!`."""
    fname, ftype, pre, lines = task
    out = {}
    n = 0
    npre = len(pre)
    for i in range(1, len(lines)):
        prev, nxt = lines[i - 1], lines[i]
        if nxt.kind == "cont" or (nxt.kind == "comment" and nxt.text().startswith(("**", "*/"))):
            continue            # inside a wrapped statement / a block comment: the fragment would be part of it
        for frag in STRICT_FRAGMENTS:
            new = lines[:i] + [norm.Line([norm.P("raw", "\t" * nxt.depth + frag)], "raw")] + lines[i:]
            text = norm.render(pre + new)
            n += 1
            r = impl.run_text(fname, text, trace=True)
            if r.exc is None and r.status == "OK":
                fl = npre + i + 1
                owner, oline = _owner(r.trace, fl)
                key = "fragment:" + _absorbed_sig(owner, lines[i:], lines[:i], oline == fl)
                if key not in out:
                    out[key] = (text, f"line {frag!r} inserted before line {npre + i + 1} ({nxt.kind}, after {prev.kind}): the file is still OK!")
    return n, out


def inv_task(task):
    """Worker: partition and depth invariants on an arbitrary (possibly violating) program whose braces balance."""
    fname, text, label = task
    r = impl.run_text(fname, text, trace=True)
    if r.exc is not None:
        return [f"run ends in {r.exc[0]}: {r.exc[1][:80]}"]
    probs, nseg, unrec = progrun.segmentation(r)
    if unrec:
        probs.append(f"{unrec} tokens took the unrecognised path without a fatal diagnostic")
    if r.trace and len(r.trace[-1][5]) != 1:
        probs.append(f"nesting depth at end of file is {len(r.trace[-1][5])}")
    if label.startswith("aligned:"):
        # a conforming body written one statement per line: every statement starts in column 1 and ends with its line
        for x in r.trace or []:
            if x[3] is not None and x[3][1] != 1:
                probs.append(f"a statement starts in column {x[3][1]} (line {x[3][0]})")
                break
            if x[4] not in ("NEWLINE", None):
                probs.append(f"a statement ends with {x[4]} instead of NEWLINE (line {x[3][0] if x[3] else '?'})")
                break
    if label.startswith("closing:"):
        # the members of a type block are examined inside its scope: a pop that starts on a member line happens at depth 2
        lines = text.split("\n")
        depth_before = 1
        for x in r.trace or []:
            if x[3] is not None and 1 <= x[3][0] <= len(lines) and lines[x[3][0] - 1].startswith("\t") and depth_before < 2 \
                    and lines[x[3][0] - 1].strip() and x[3][1] == 1:
                probs.append(f"a member line is examined at file level (depth {depth_before})")
                break
            depth_before = len(x[5])
    if r.stdout:
        probs.append("stray output")
    return probs


def sample_task(task):
    """Worker: the partition invariants on every line-prefix (with and without final newline) of one sample input of
    norminette's own tests: pops tile the token list, each >= 1 token, nothing takes the unrecognised path unless the
    run ends in the fatal diagnostic, no stray output.  (Internal errors on damaged input are C05's business.)"""
    fname, text = task
    ls = text.split("\n")
    out = {}
    n = 0
    variants = [text] + [v for k in range(1, len(ls)) for v in ("\n".join(ls[:k]) + "\n", "\n".join(ls[:k]))]
    for v in variants:
        n += 1
        r = impl.run_text(fname, v, trace=True, fuel=400 * (len(v) + 50))
        if r.exc is not None:
            if r.exc[0] == "FuelExhausted" and r.trace and any(x[0] < 1 for x in r.trace[-3:]):
                out.setdefault("pop of 0 tokens (the run never advances)", v)
            continue
        probs, nseg, unrec = progrun.segmentation(r)
        if unrec:
            probs.append(f"{unrec} tokens took the unrecognised path without a fatal diagnostic")
        if r.stdout:
            probs.append("stray output")
        for p in probs:
            key = p.split(" (")[0][:60]
            if key not in out or len(v) < len(out[key]):
                out[key] = v
    return n, out


def run(tier, seed):
    st = explore.Stats()
    failures = []
    reps = {".c": {}, ".h": {}}
    total = 0
    for ftype in (".c", ".h"):
        def on(h, o, ftype=ftype):
            ids = h[2]
            payload = {"kind": "hist", "ftype": ftype, "ids": list(ids), "tier": tier}
            for p in o["seg"]:
                failures.append(Failure("C07", "partition:" + p.split(" (")[0][:40] + "@" + (ids[-1] if ids else "init"),
                                        f"{p}; last blocks {ids[-3:]}", payload))
            if o.get("scope_mismatch"):
                got, exp = o["scope_mismatch"]
                failures.append(Failure("C07", f"depth:{len(got)}!={len(exp)}@{ids[-1] if ids else 'init'}",
                                        f"nesting depth after blocks {ids[-3:]} is {len(got)} ({got}), the model says {len(exp)}", payload))
            if o["mkey"] is not None and o["mkey"] not in reps[ftype]:
                reps[ftype][o["mkey"]] = ids
            st.bump("segments_checked")

        sink = []
        seen, edges = c01.search(ftype, tier, st, sink, on=on)
        total += len(seen)
    st.states = total
    # ---- unrecognisable fragments
    tasks = []
    for ftype in (".c", ".h"):
        for mk, ids in reps[ftype].items():
            for fr in FRAGMENTS:
                tasks.append((ftype, ids, tier, fr, "mid"))
        acc = [ids for ids in reps[ftype].values()
               if norm.accepting(norm.replay(ftype, ids, progrun.BOUNDS[tier], with_preamble=False).st)]
        for ids in acc[:: max(1, len(acc) // (20 if tier == "quick" else 200))]:
            for fr in FRAGMENTS:
                tasks.append((ftype, ids, tier, fr, "last-nl"))
                tasks.append((ftype, ids, tier, fr, "last-nonl"))
    res = explore.pmap(frag_task, tasks, chunksize=16)
    st.runs += len(tasks)
    st.transitions += len(tasks)
    for t, o in zip(tasks, res):
        ftype, ids, _, fr, mode = t
        if o["unrec"] > 0:
            st.bump(f"took_unrecognised_path:{mode}")
            st.bump(f"took_unrecognised_path:frag={fr}")
        if o["viol"]:
            ctx = ids[-1].split(":")[0] if ids else "init"
            sig = f"fragment:{o['viol']}:frag={fr!r}:{mode}" + (f":after={ctx}" if mode == "mid" else "")
            if o["viol"].startswith("absorbed-silently"):
                sig = f"fragment:{o['viol']}"        # keyed on the rule that swallowed the fragment and on what follows it
            failures.append(Failure("C07", sig,
                                    f"fragment {fr!r} ({mode}) after {ids[-2:]}: status {o['status']}, exc {o['exc']}, "
                                    f"stdout {o['stdout'][:20]!r} seg {o['seg'][:2]}",
                                    {"kind": "frag", "task": [ftype, list(ids), tier, fr, mode]}))
    # ---- violating programs and brace-separator variants: partition and depth-at-end-of-file invariants
    from .. import carriers
    vtasks = [(v["fname"], v["text"], "violating:" + v["vid"]) for v in carriers.violating("quick", per_op=1 if tier == "quick" else 3)]
    for c in carriers.conforming("quick", cap=30 if tier == "quick" else 200):
        lines = c["lines"]
        for i, l in enumerate(lines):
            if l.kind == "simple" and i > 0 and lines[i - 1].kind in ("ctrl", "cont") and l.depth >= 2:
                ind = "\t" * l.depth
                for label, sep in (("comment", ind + "// c"), ("empty", "")):
                    new = lines[:i] + [norm.Line([norm.P("raw", sep)], "raw")] + lines[i:]
                    vtasks.append((c["fname"], norm.render(c["pre"] + new), f"separator:{label}:before-braceless-body"))
            if l.kind == "lbrace" and i > 0:
                ind = "\t" * l.depth
                for label, sep in (("comment", ind + "// c"), ("blockcomment", ind + "/* c */"), ("empty", ""), ("define", "#define SEP 1")):
                    new = lines[:i] + [norm.Line([norm.P("raw", sep)], "raw")] + lines[i:]
                    vtasks.append((c["fname"], norm.render(c["pre"] + new), f"separator:{label}:before-brace-after-{lines[i - 1].kind}"))
    ltasks = [(c["fname"], c["ftype"], c["pre"], c["lines"]) for c in carriers.conforming("quick", cap=24 if tier == "quick" else 200)]
    lres = explore.pmap(line_task, ltasks, chunksize=1)
    lmerged = {}
    for t, (n, out) in zip(ltasks, lres):
        st.runs += n
        st.transitions += n
        st.bump("strict_fragment_at_line_boundary", n)
        for key, (text, detail) in out.items():
            if key not in lmerged or len(text) < len(lmerged[key][1]):
                lmerged[key] = (t[0], text, detail)
    for key, (fname, text, detail) in sorted(lmerged.items()):
        failures.append(Failure("C07", key, f"{fname}: {detail}", {"kind": "strict", "fname": fname, "text": text}))
    # type blocks closed in every way C allows, followed by more top-level items: the depth must be back at file level
    # after each of them (checked at the end of the file) and nothing may be swallowed
    from ..model import header42
    closings = ["}\tt_item;", "}\t*t_item;", "}\t**t_item;", "}\tt_item, *t_pitem;", "};", "}\tt_item[2];", "} __attribute__((packed))\tt_item;",
                "}\t*t_item, t_val;", "}\t(*t_item);"]
    for kw, tag, members in (("struct", "s_item", "\tint\t\tvalue;\n\tchar\t*name;\n"), ("union", "u_item", "\tint\t\tvalue;\n\tchar\t*name;\n"),
                             ("enum", "e_item", "\tITEM_A,\n\tITEM_B\n"),
                             # a function pointer, an array, a nested struct pointer, a bit-field as the *first* member
                             ("struct", "s_item", "\tint\t\t(*cmp)(const void *a, const void *b);\n\tchar\t*name;\n"),
                             ("union", "u_item", "\tvoid\t(*run)(void);\n\tint\t\tvalue;\n"),
                             ("struct", "s_item", "\tchar\tbuf[4];\n\tstruct s_item\t*next;\n"),
                             ("struct", "s_item", "\tunsigned int\tflag : 1;\n\tint\t\t\t\tvalue;\n")):
        for cl in closings:
            head = (f"typedef {kw} {tag}\n" if not cl == "};" else f"{kw} {tag}\n")
            blk = head + "{\n" + members + cl + "\n"
            hh = norm.render(norm.preamble(".h", "test.h"))
            vtasks.append(("test.h", hh + blk + "\nint\t\tft_value(int n);\n\n" + blk.replace("item", "other").replace("ITEM", "OTHER") +
                           "\nint\t\tft_other(int n);\n\n#endif\n", f"closing:{kw}:{cl.split(chr(9))[-1][:12]}:h"))
            hc = norm.render(norm.preamble(".c", "test.c"))
            vtasks.append(("test.c", hc + blk + "\nint\tft_value(int n)\n{\n\treturn (n);\n}\n\nint\tft_other(int n)\n{\n\treturn (n + 1);\n}\n",
                           f"closing:{kw}:{cl.split(chr(9))[-1][:12]}:c"))
    from . import c01_expr
    hc_ = norm.render(norm.preamble(".c", "test.c"))
    for label, body in c01_expr.fptr_cases(tier):
        if label.startswith(("fptr:call", "fptr:def", "fptr:local")):
            vtasks.append(("test.c", hc_ + body, "aligned:" + label))
    from . import c02
    for label, ln, code, text in c02.ternary_cases():
        vtasks.append(("test.h" if "#ifndef TEST_H" in text else "test.c", text, "violating:" + label))
    vres = explore.pmap(inv_task, vtasks, chunksize=8)
    st.runs += len(vtasks)
    st.transitions += len(vtasks)
    st.bump("violating_and_separator_programs", len(vtasks))
    for (fname, text, label), probs in zip(vtasks, vres):
        for pr in probs:
            failures.append(Failure("C07", f"{label}:{pr.split(' (')[0][:50]}", f"{label}: {pr}", {"kind": "inv", "fname": fname, "text": text, "label": label}))
    from .. import corpus
    smp = list(corpus.samples())
    sres = explore.pmap(sample_task, smp, chunksize=2)
    for (fname, text), (n, out) in zip(smp, sres):
        st.runs += n
        st.transitions += n
        st.bump("sample_line_prefixes", n)
        for key, v in out.items():
            failures.append(Failure("C07", f"sample-prefix:{key}", f"line-prefix of {fname}: {key}", {"kind": "sample", "fname": fname, "text": v}))
    for mode in ("mid", "last-nl", "last-nonl"):
        if st.vacuity.get(f"took_unrecognised_path:{mode}", 0) == 0:
            raise HarnessError(f"no inserted fragment took the unrecognised path in position class {mode}")
    st.sample({"fragment_case": list(tasks[len(tasks) // 2][:2]) + list(tasks[len(tasks) // 2][3:])})
    st.sample({"representative": list(next(iter(reps[".c"].values())))})
    return CheckResult(
        st, failures,
        rule="every transition of the C01 product graph: pops tile the token list, each >= 1 token, segments start at "
             "column 1 and end with NEWLINE, segment count equals the model's statement count, scope chain equals the "
             "model's stack; plus every fragment of the pool inserted after every model-state representative and as "
             "last line with/without NL; distinct = distinct implementation-state digests",
        exhaustive=not st.caps,
        bounds={"model": progrun.BOUNDS[tier]._asdict(), "fragments": FRAGMENTS},
        alphabet={"fragments": len(FRAGMENTS), "positions": 3},
        assumptions=BASE_ASSUMPTIONS + ["mc/model/norm.py statement counts and scope stack",
                                        "the implementation's own notion of 'unrecognised' (pop of one token with no primary match)"],
        distinct=len(st.outcomes),
    )


def replay(payload):
    if payload["kind"] == "sample":
        r = impl.run_text(payload["fname"], payload["text"], trace=True, fuel=400 * (len(payload["text"]) + 50))
        if r.exc is not None:
            bad = r.exc[0] == "FuelExhausted" and r.trace and any(x[0] < 1 for x in r.trace[-3:])
            return [Failure("C07", "sample-prefix", "pop of 0 tokens", payload)] if bad else []
        probs, nseg, unrec = progrun.segmentation(r)
        if unrec:
            probs.append("unrecognised path without a fatal diagnostic")
        if r.stdout:
            probs.append("stray output")
        return [Failure("C07", "sample-prefix", p, payload) for p in probs]
    if payload["kind"] == "strict":
        r = impl.run_text(payload["fname"], payload["text"])
        return [Failure("C07", "strict", "the file with the fragment is still OK!", payload)] if r.exc is None and r.status == "OK" else []
    if payload["kind"] == "inv":
        return [Failure("C07", "invariant", p, payload) for p in inv_task((payload["fname"], payload["text"], payload.get("label", "")))]
    if payload["kind"] == "frag":
        t = payload["task"]
        o = frag_task((t[0], tuple(t[1]), t[2], t[3], t[4]))
        if o["viol"]:
            return [Failure("C07", f"fragment:{o['viol']}", str(o)[:200], payload)]
        return []
    h = (payload["ftype"], payload["tier"], tuple(payload["ids"]))
    o = progrun.eval_hist(c01._task(h))
    out = []
    for p in o["seg"]:
        out.append(Failure("C07", "partition", p, payload))
    if o.get("scope_mismatch"):
        out.append(Failure("C07", "scope", str(o["scope_mismatch"]), payload))
    return out
