"""C10 -- tokenization is lossless (DESIGN §4.10, shape T)."""
from ..common import CheckResult, BASE_ASSUMPTIONS
from . import lexcommon

KINDS = ("align", "ws", "relex")


def plan(tier):
    if tier == "quick":
        return [("layout", 5), ("altspell", 5), ("numbers", 4), ("operators", 4), ("quotes", 5)]
    return [("layout", 7), ("altspell", 6), ("numbers", 6), ("operators", 6), ("quotes", 6)]


def run(tier, seed):
    from .c09 import carrier_cases

    st, failures = lexcommon.run_trie("C10", KINDS, plan(tier), seed, extra_cases=carrier_cases(tier, seed))
    return CheckResult(
        st, failures,
        rule="every string over the focused alphabets up to the length bound (input trie, all nodes); the token "
             "texts must consume the raw text exactly (splices, digraph/trigraph spellings, tab expansion in block "
             "comments being the only normalisations); distinct = distinct token-kind sequences produced",
        exhaustive=True,
        bounds={name: n for name, n in plan(tier)},
        alphabet={name: len(lexcommon.ALPHABETS[name]) for name, _ in plan(tier)},
        assumptions=BASE_ASSUMPTIONS + ["the reference scanner mc/model/lexref.py"],
        distinct=len(st.outcomes),
    )


def replay(payload):
    return lexcommon.replay_lex(payload, KINDS)
