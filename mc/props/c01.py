"""C01 -- Norm-conforming files are accepted (DESIGN §4.1; product state-space search, shape S)."""
from __future__ import annotations

from .. import explore, progrun
from ..common import CheckResult, BASE_ASSUMPTIONS, HarnessError
from ..findings import Failure
from ..model import norm

DEPTH = {"quick": 14, "thorough": 40}
UNMERGED_DEPTH = {"quick": 2, "thorough": 3}


def expand_fn(ftype, tier):
    b = progrun.BOUNDS[tier]
    cache = {}

    def expand(hist):
        ids = hist[2]
        st = cache.get(ids)
        if st is None:
            st = norm.replay(ftype, ids, b, with_preamble=False).st
        out = []
        for blk, ns in norm.enabled(st, b):
            nid = ids + (blk.bid,)
            cache[nid] = ns
            out.append((ftype, tier, nid))
        cache.pop(ids, None)
        return out

    return expand


def _task(h, validate=False):
    ftype, tier, ids = h
    return (ftype, ids, tier, {"fast": True, "validate_fast": validate})


def judge(h, o, failures, st):
    """The C01 oracle on one transition."""
    ftype, tier, ids = h
    payload = {"ftype": ftype, "ids": list(ids), "tier": tier}
    if o["exc"] is not None:
        failures.append(Failure("C01", f"exception:{o['exc'][0]}@{ids[-1] if ids else 'init'}",
                                f"{o['exc']} after blocks {ids[-3:]}", payload))
        return
    for d, sig in zip(o["errs"], o.get("sigs", [])):
        failures.append(Failure("C01", "spurious:" + sig,
                                f"{d[1]} at line {d[2]} col {d[3]} of a conforming file; last blocks {ids[-3:]}",
                                payload))
    if o["status"] != "OK" and not o["errs"]:
        failures.append(Failure("C01", "status-not-ok", f"status {o['status']} without Error diagnostic", payload))
    if o["stdout"]:
        failures.append(Failure("C01", "stray-output", f"stray output {o['stdout'][:40]!r}", payload))
    if o.get("fast_mismatch"):
        raise HarnessError(f"fast path differs from full path on {ids}: {o['fast_mismatch']}")
    if o["errs"]:
        st.bump("transitions_with_error")


def search(ftype, tier, st, failures, depth=None, on=None):
    expand = expand_fn(ftype, tier)
    validated = [0]

    def run_many(hists):
        return explore.pmap(progrun.eval_hist, [_task(h, validate=(len(h[2]) <= 3)) for h in hists], chunksize=8)

    def key_of(h, o):
        return o["key"]

    def on_result(h, o):
        judge(h, o, failures, st)
        st.outcomes.add(o.get("ikey"))
        if on:
            on(h, o)

    seen, edges = explore.bfs([(ftype, tier, ())], expand, run_many, key_of,
                              depth or DEPTH[tier], st, on_result=on_result)
    return seen, edges


def unmerged(ftype, tier, st, failures):
    """Exhaustive enumeration without any deduplication, to a small depth (DESIGN §2.1 end)."""
    expand = expand_fn(ftype, tier)
    level = [(ftype, tier, ())]
    n = 0
    for d in range(UNMERGED_DEPTH[tier]):
        nxt = []
        for h in level:
            nxt.extend(expand(h))
        obs = explore.pmap(progrun.eval_hist, [_task(h) for h in nxt], chunksize=8)
        for h, o in zip(nxt, obs):
            judge(h, o, failures, st)
        n += len(nxt)
        level = nxt
    st.runs += n
    st.bump("unmerged_histories", n)


MERGE_PAIRS = {"quick": 60, "thorough": 400}
MERGE_PAIRS_DEEP = {"quick": 4, "thorough": 40}


def _ext_obs(ftype, tier, hist_ids, exts):
    """Observations of `hist + ext` for each extension, relative to the extension's own lines."""
    tasks = [(ftype, hist_ids + e, tier, {"fast": True, "rel": len(e)}) for e in exts]
    res = explore.pmap(progrun.eval_hist, tasks, chunksize=8)
    out = []
    for e, o in zip(exts, res):
        first = o.get("first_blk") or 0
        rel = sorted((d[1], d[2] - first, d[3]) for d in o["errs"] if d[2] is not None and d[2] >= first)
        out.append((rel, o["exc"][0] if o["exc"] else None, o.get("ikey"), tuple(o["seg"])))
    return out


def merge_validation(ftype, tier, seen, edges, st, failures):
    """Bounded bisimulation check of the abstraction (DESIGN §2.1): a discarded history and the
    representative it was merged into must behave identically under every extension of length 1
    (and length 2 for a subset).  A mismatch refines the search: the discarded history is explored too."""
    b = progrun.BOUNDS[tier]
    merged = [(seen[k], h) for (par, h, k, new) in edges if not new and seen.get(k) is not None and seen[k] != h]
    if not merged:
        return
    step = max(1, len(merged) // MERGE_PAIRS[tier])
    pairs = merged[::step][:MERGE_PAIRS[tier]]
    refinements = []
    for pi, (h1, h2) in enumerate(pairs):
        st1 = norm.replay(ftype, h1[2], b, with_preamble=False).st
        exts = [(blk.bid,) for blk, ns in norm.enabled(st1, b)]
        if pi < MERGE_PAIRS_DEEP[tier]:
            for blk, ns in norm.enabled(st1, b):
                exts += [(blk.bid, b2.bid) for b2, _ in norm.enabled(ns, b)]
        try:
            o1 = _ext_obs(ftype, tier, h1[2], exts)
            o2 = _ext_obs(ftype, tier, h2[2], exts)
        except KeyError:
            refinements.append((h1, h2, "model-enabled-sets-differ"))
            continue
        st.runs += 2 * len(exts)
        st.bump("merge_validations", len(exts))
        for e, a, c in zip(exts, o1, o2):
            if a != c:
                refinements.append((h1, h2, e))
                break
    # the same pairs under one-violation extensions (the C02 oracle must not see the difference either)
    from . import c02
    nv = 0
    for pi, (h1, h2) in enumerate(pairs[: (0 if tier == "quick" else 60)]):
        st1 = norm.replay(ftype, h1[2], b, with_preamble=False).st
        for blk, ns in norm.enabled(st1, b):
            try:
                v1 = {(v[0], v[2]): v for v in c02.variants(ftype, h1[2] + (blk.bid,), tier)}
                v2 = {(v[0], v[2]): v for v in c02.variants(ftype, h2[2] + (blk.bid,), tier)}
            except KeyError:
                continue
            keys = [k for k in v1 if k in v2]
            # one site per operator
            seen_ops = set()
            keys = [k for k in keys if not (k[0] in seen_ops or seen_ops.add(k[0]))]
            t1 = [(ftype, "test" + ftype, v1[k][3]) for k in keys]
            t2 = [(ftype, "test" + ftype, v2[k][3]) for k in keys]
            r1 = explore.pmap(progrun.eval_body, t1, chunksize=8)
            r2 = explore.pmap(progrun.eval_body, t2, chunksize=8)
            nv += len(keys)
            st.runs += 2 * len(keys)
            for k, a, c in zip(keys, r1, r2):
                e1 = min(v1[k][4])
                e2 = min(v2[k][4])
                da = sorted((d[1], d[2] - e1) for d in a[0] if d[2] >= e1 - 1)
                dc = sorted((d[1], d[2] - e2) for d in c[0] if d[2] >= e2 - 1)
                if da != dc or (a[2] is None) != (c[2] is None):
                    refinements.append((h1, h2, (blk.bid, k[0])))
                    break
    st.bump("merge_validations_with_violations", nv)
    st.bump("abstraction_refinements", len(refinements))
    st.extra["merge_pairs_validated"] = st.extra.get("merge_pairs_validated", 0) + len(pairs)
    st.extra["abstraction_refinements"] = st.extra.get("abstraction_refinements", 0) + len(refinements)
    # refinement: the discarded histories are explored on their own (depth <= 3, no deduplication against the main set)
    for h1, h2, e in refinements[:20]:
        level = [h2]
        expand = expand_fn(ftype, tier)
        for d in range(3):
            nxt = []
            for h in level:
                nxt.extend(expand(h))
            nxt = nxt[:400]
            obs = explore.pmap(progrun.eval_hist, [_task(h) for h in nxt], chunksize=8)
            for h, o in zip(nxt, obs):
                judge(h, o, failures, st)
            st.runs += len(nxt)
            level = nxt
        st.sample({"abstraction_refinement": {"kept": list(h1[2]), "discarded": list(h2[2]), "differs_under": list(e) if not isinstance(e, str) else e}})


CLI_CAP = {"quick": 120, "thorough": 600}


def accepting_cli(ftype, tier, seen, st, failures):
    """Oracle (3): for accepting state representatives the command prints `<name>: OK!` and exits 0."""
    b = progrun.BOUNDS[tier]
    reps = []
    for k, h in seen.items():
        rp = norm.replay(ftype, h[2], b, "test" + ftype)
        if norm.accepting(rp.st):
            reps.append((h, norm.render(rp.lines + norm.completion(rp.st))))
    step = max(1, len(reps) // CLI_CAP[tier])
    chosen = reps[::step]
    # ... and one accepting representative per block of the alphabet (a static global brings a Notice, a wrapped call
    # two physical lines, ...): the command-level oracle must see every kind of block at least once
    # (state representatives are shortest histories and never hold a block that leaves no trace in the state, such
    # as a global followed by a function; the carrier set has every block in at least one complete file)
    from .. import carriers
    covered = set(i for h, _ in chosen for i in h[2])
    for c in carriers.conforming("quick", ftypes=(ftype,)):
        new = set(c["ids"]) - covered
        if new:
            chosen.append(((ftype, tier, tuple(c["ids"])), c["text"]))
            covered |= new
    res = explore.pmap(progrun.cli_text, [("test" + ftype, text, ["--no-colors"]) for _, text in chosen], chunksize=4)
    st.runs += len(chosen)
    st.bump(f"accepting_states{ftype}", len(reps))
    st.bump(f"accepting_cli_runs{ftype}", len(chosen))
    for (h, text), o in zip(chosen, res):
        ok = o["code"] == 0 and o["stdout"].startswith(f"test{ftype}: OK!") and o["exc"] is None
        if not ok:
            failures.append(Failure("C01", f"cli:exit={o['code']}:exc={o['exc'][0] if o['exc'] else None}",
                                    f"main() on a conforming file: exit {o['code']}, stdout {o['stdout'][:80]!r}",
                                    {"ftype": ftype, "ids": list(h[2]), "tier": tier, "kind": "cli", "text": text}))
    # real subprocess for a fixed handful (harness conformance of the in-process driver)
    import os
    import tempfile
    import shutil
    from .. import impl
    for (h, text) in chosen[:3]:
        d = tempfile.mkdtemp(prefix="mcverif_")
        try:
            path = os.path.join(d, "test" + ftype)
            open(path, "w").write(text)
            o = impl.run_cli_subprocess(["--no-colors", path])
            st.runs += 1
            if o["code"] != 0 or not o["stdout"].startswith(f"test{ftype}: OK!"):
                failures.append(Failure("C01", f"cli-subprocess:exit={o['code']}",
                                        f"python -m norminette on a conforming file: exit {o['code']}, "
                                        f"stdout {o['stdout'][:80]!r} stderr {o['stderr'][-120:]!r}",
                                        {"ftype": ftype, "ids": list(h[2]), "tier": tier, "kind": "cli", "text": text}))
        finally:
            shutil.rmtree(d, ignore_errors=True)


def run(tier, seed):
    st = explore.Stats()
    failures = []
    total_states = 0
    for ftype in (".c", ".h"):
        seen, edges = search(ftype, tier, st, failures)
        total_states += len(seen)
        st.bump(f"states{ftype}", len(seen))
        for k, h in list(seen.items())[:: max(1, len(seen) // 3)][:3]:
            rp = norm.replay(ftype, h[2], progrun.BOUNDS[tier])
            st.sample({"ftype": ftype, "blocks": list(h[2]),
                       "text_tail": norm.render(rp.lines + norm.completion(rp.st)).split("\n")[12:]})
        unmerged(ftype, tier, st, failures)
        merge_validation(ftype, tier, seen, edges, st, failures)
        accepting_cli(ftype, tier, seen, st, failures)
    st.states = total_states
    if total_states < 50:
        raise HarnessError(f"only {total_states} product states: exploration is vacuous")
    from . import c01_expr
    c01_expr.explore_expressions(tier, seed, st, failures)
    return CheckResult(
        st, failures,
        rule="breadth-first search of the product (reference model of conforming files x canonical dump of the real "
             "Context at the block boundary); every transition is one run of the real pipeline on a complete file; "
             "distinct = distinct implementation-state digests reached; plus un-merged enumeration to a small depth "
             "and the nested expression/signature/declaration enumerations",
        exhaustive=not st.caps,
        bounds={"model": progrun.BOUNDS[tier]._asdict(), "bfs_depth": DEPTH[tier],
                "unmerged_depth": UNMERGED_DEPTH[tier]},
        alphabet={"blocks_per_state": "8-40 (see mc/model/norm.py enabled())"},
        assumptions=BASE_ASSUMPTIONS + ["the generator mc/model/norm.py derives only Norm-conforming text (DESIGN §4.1)",
                                        "the abstraction table of mc/canon.py (validated by merge validation in C07/selfcheck)"],
        distinct=len(st.outcomes),
    )


def replay(payload):
    fails = []
    st = explore.Stats()
    if payload.get("kind") == "expr":
        from . import c01_expr
        return c01_expr.replay(payload)
    h = (payload["ftype"], payload["tier"], tuple(payload["ids"]))
    if payload.get("kind") == "cli":
        ftype = payload["ftype"]
        text = payload.get("text")
        if text is None:
            rp = norm.replay(ftype, h[2], progrun.BOUNDS[payload["tier"]], "test" + ftype)
            text = norm.render(rp.lines + norm.completion(rp.st))
        o = progrun.cli_text(("test" + ftype, text, ["--no-colors"]))
        if not (o["code"] == 0 and o["stdout"].startswith(f"test{ftype}: OK!") and o["exc"] is None):
            return [Failure("C01", f"cli:exit={o['code']}:exc={o['exc'][0] if o['exc'] else None}", str(o)[:200], payload)]
        return []
    o = progrun.eval_hist(_task(h))
    judge(h, o, fails, st)
    return fails
