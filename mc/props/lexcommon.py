"""Input-trie enumeration over the tokenizer (shape T), shared by C05/C09/C10."""
from __future__ import annotations

import itertools

from .. import impl
from ..model import lexref

ALPHABETS = {
    "layout": ["a", "1", " ", "\t", "\n", "\\", "/", "*", '"', "'"],
    "altspell": ["?", "/", "\n", "<", ":", "%", ">", "=", "#", "(", "!", "'", "-", "a"],
    "numbers": ["0", "1", "9", "x", "b", "e", "p", ".", "+", "-", "u", "l", "f", "a"],
    "quotes": ["L", "u", "8", "'", '"', " ", "a", "=", "\\", "\n", "l"],
    "operators": ["+", "-", "<", ">", "=", "&", "|", "!", ".", "*", "/", "%", "^", "a"],
}

PREFIX_LEN = 2


def tasks(alpha_name, maxlen):
    """Partition the trie: every string of length < PREFIX_LEN is its own task, and every
    prefix of length PREFIX_LEN owns its whole subtree."""
    alpha = ALPHABETS[alpha_name]
    out = []
    for k in range(min(PREFIX_LEN, maxlen + 1)):
        for tup in itertools.product(alpha, repeat=k):
            out.append((alpha_name, "".join(tup), 0))
    if maxlen >= PREFIX_LEN:
        for tup in itertools.product(alpha, repeat=PREFIX_LEN):
            out.append((alpha_name, "".join(tup), maxlen - PREFIX_LEN))
    return out


def subtree(alpha, prefix, extra):
    for k in range(extra + 1):
        for tup in itertools.product(alpha, repeat=k):
            yield prefix + "".join(tup)


def analyse(text):
    """Lex one string and evaluate the C05/C09/C10 oracles.  Returns list of (kind, sig, detail)."""
    toks, errs, exc = impl.lex(text)
    if exc is not None:
        return [("exc", f"lexer-exception:{exc[0]}", f"{exc}")], None
    fails = []
    try:
        errlist = list(errs)
    except Exception as e:  # noqa: BLE001
        return [("exc", f"error-sort-exception:{type(e).__name__}", str(e))], None
    bad = set()
    for e in errlist:
        if e.name == "BAD_LEXEME":
            for h in e.highlights[:1]:
                bad.add((h.lineno, h.column))
    nbad_errors = sum(1 for e in errlist if e.name == "BAD_LEXEME")
    # an escape notice points at the escape: the character at the highlighted place is the one that follows a backslash
    # (UNKNOWN_ESCAPE) or the `x` of a backslash-x (NO_HEX_DIGITS) -- recomputed from the raw text, splices included
    for e in errlist:
        if e.name in ("UNKNOWN_ESCAPE", "NO_HEX_DIGITS") and e.highlights:
            h = e.highlights[0]
            before, ch = _raw_before(text, h.lineno, h.column)
            ok = before is not None and ch != "" and (before.endswith("\\") or before.endswith("??/"))
            if ok and e.name == "NO_HEX_DIGITS":
                ok = ch == "x"
            if not ok:
                fails.append(("printed", f"printed:{e.name}:not-at-the-escape",
                              f"{e.name} reported at ({h.lineno}, {h.column}); the raw text there is {ch!r} after {None if before is None else before[-4:]!r}"))
                break
    if errlist:
        # "the position printed with a diagnostic points at the offending character": what the human-readable report
        # prints for each lexical diagnostic is its earliest highlight (several highlights: the later ones are hints)
        import types
        shim = types.SimpleNamespace(basename="t.c", path="t.c", errors=errs)
        try:
            printed = [(int(m.group(1)), int(m.group(2))) for m in _PRINTED.finditer(impl.format_files([shim], "humanized"))]
        except Exception as e:  # noqa: BLE001
            printed = None
            fails.append(("printed", f"printed:formatter-exception:{type(e).__name__}", str(e)[:120]))
        if printed is not None:
            want = [min((h.lineno, h.column) for h in e.highlights) for e in errlist if e.highlights]
            if printed != want:
                k = next((i for i, (a, b) in enumerate(zip(printed, want)) if a != b), min(len(printed), len(want)))
                code = errlist[k].name if k < len(errlist) else "?"
                fails.append(("printed", f"printed:{code}:not-the-earliest-highlight",
                              f"the report prints {printed[k] if k < len(printed) else None} for {code}, its earliest highlight is "
                              f"{want[k] if k < len(want) else None}"))
    al = lexref.align(text, toks, bad, want=[t.pos for t in toks])
    if not al["ok"]:
        # no alignment agrees with the reported positions: judge the first alignment that exists
        al = lexref.align(text, toks, bad)
    if not al["ok"] and nbad_errors:
        al2 = lexref.align(text, toks, list(range(nbad_errors)), count_mode=True)
        if al2["ok"]:
            # nothing is lost (C10 holds); a BAD_LEXEME diagnostic points at the wrong place (C09)
            al = al2
            j = next((i for i, sp in enumerate(al2["spans"]) if sp[0] > 0), len(toks))
            wrong = sorted(set(al2["bad_at"]) ^ bad)
            first_bad = min(al2["bad_at"])
            prev_i = max([i for i, e in enumerate(al2["expected"]) if e < first_bad], default=-1)
            if prev_i >= 0:
                a, b = al2["spans"][prev_i]
                ctx = f"{toks[prev_i].type}[{lexref.raw_features(text[a:b])}]"
            else:
                ctx = "BOF"
            fails.append(("pos", f"pos:BAD_LEXEME-after-{ctx}",
                          f"BAD_LEXEME reported at {sorted(bad)}, unmatched characters are at {al2['bad_at']}"))
    if not al["ok"]:
        fails.append(("align", _align_sig(text, toks, al), al["why"]))
    else:
        exp = al["expected"]
        for i, (t, e) in enumerate(zip(toks, exp)):
            if tuple(t.pos) != e:
                prev = toks[i - 1].type if i else "BOF"
                a, b = al["spans"][i - 1] if i else (0, 0)
                feat = lexref.raw_features(text[a:b])
                between = "+splice-before" if i and "\n" in text[b:al["spans"][i][0]] and toks[i - 1].type != "NEWLINE" else ""
                fails.append(("pos", f"pos:after-{prev}[{feat}]{between}",
                              f"token {i} {t.type} reported at {tuple(t.pos)}, first character is at {e}"))
                break
        for t in toks:
            if t.type not in lexref.TEXTUAL and t.type not in lexref.WS:
                tt = lexref.token_text(t)
                if any(ch in tt for ch in " \t\n"):
                    fails.append(("ws", f"ws-inside:{t.type}", f"{t.type} token text {tt!r} contains a blank"))
                    break
        # idempotence of the normalisation
        norm = "".join(lexref.token_text(t) for t in toks)
        if norm != text and not bad and "\\\n" not in text and "??/\n" not in text:
            t2, _, exc2 = impl.lex(norm)
            if exc2 is None:
                a = [(t.type, t.value) for t in toks]
                b = [(t.type, t.value) for t in t2]
                if a != b:
                    fails.append(("relex", "relex", f"re-lexing the concatenated token texts {norm!r} gives other tokens"))
    sig = tuple(t.type for t in toks)
    return fails, sig


def _raw_before(text, lineno, column):
    """(raw text of the line before the visual column, raw character at it) -- tab stops every 4 columns."""
    lines = text.split("\n")
    if not (1 <= lineno <= len(lines)):
        return None, None
    line = lines[lineno - 1]
    col = 1
    for i, c in enumerate(line):
        if col == column:
            return line[:i], c
        if col > column:
            return None, None
        col = col + (4 - (col - 1) % 4) if c == "\t" else col + 1
    if col == column:
        return line, ""
    return None, None


import re as _re
_PRINTED = _re.compile(r"\(line:\s*(\d+), col:\s*(\d+)\):")


def _cls(ch):
    if ch == "":
        return "EOF"
    if ch == "\n":
        return "NL"
    if ch == "\t":
        return "TAB"
    if ch == " ":
        return "SP"
    if ch.isalnum() or ch == "_":
        return "word"
    return "punct"


def _align_sig(text, toks, al):
    """Input-side signature of an alignment failure: the token in which (or after which) the
    walk got stuck, the features of its raw spelling, and the class of the raw character."""
    if "at" not in al:
        return "align:structural"
    for t in toks[:-1] if not text.rstrip("\\\n?/").endswith(lexref.token_text(toks[-1])) or True else toks:
        tt = lexref.token_text(t)
        if t.type == "CHAR_CONST" and (len(tt) < 2 or not tt.endswith("'")):
            return "align:newline-after-unterminated-char-constant"
    if toks:
        tt = lexref.token_text(toks[-1])
        if toks[-1].type == "CHAR_CONST" and (len(tt) < 2 or not tt.endswith("'")) and "\n" in text:
            return "align:newline-after-unterminated-char-constant"
    at = al["at"]
    ti = len(al["spans"]) - 1
    if al.get("trailing"):
        ti += 1
    if al.get("tchar", 0) == 0 and ti > 0:
        a, b = al["spans"][ti - 1]
        return f"align:after-{toks[ti - 1].type}[{lexref.raw_features(text[a:b])}]:raw={_cls(text[at:at + 1])}"
    if ti >= 0 and ti < len(toks):
        a, _ = al["spans"][ti]
        return f"align:inside-{toks[ti].type}[{lexref.raw_features(text[a:at + 2])}]:raw={_cls(text[at:at + 1])}"
    a, b = al["spans"][-1] if al["spans"] else (0, 0)
    prev = toks[-1].type if toks else "BOF"
    return f"align:after-{prev}[{lexref.raw_features(text[a:b])}]:raw={_cls(text[at:at + 1])}"


def _tok_kind_at(toks, i):
    if i < len(toks):
        return toks[i].type
    return "EOF"


def run_task(task):
    """Worker: enumerate one subtree.  Returns (n_strings, n_tokens, outcome_hashes, fails, nexc)."""
    alpha_name, prefix, extra = task
    alpha = ALPHABETS[alpha_name]
    n = 0
    ntok = 0
    outcomes = set()
    fails = {}
    counts = {}
    for s in subtree(alpha, prefix, extra):
        n += 1
        fl, sig = analyse(s)
        if sig is not None:
            ntok += len(sig)
            outcomes.add(hash(sig))
        for kind, fsig, detail in fl:
            counts[(kind, fsig)] = counts.get((kind, fsig), 0) + 1
            lst = fails.setdefault((kind, fsig), [])
            if len(lst) < 2 or len(s) < len(lst[0][0]):
                lst.append((s, detail))
                lst.sort(key=lambda x: (len(x[0]), x[0]))
                del lst[2:]
    return n, ntok, outcomes, fails, counts


def _analyse_text(text):
    return analyse(text)


def run_trie(prop, kinds, plan, seed, extra_cases=None):
    """plan: list of (alphabet name, max length).  kinds: failure kinds this property judges.
    extra_cases: optional list of (label, text) judged by the same oracle."""
    from .. import explore
    from ..common import CheckResult, BASE_ASSUMPTIONS, HarnessError
    from ..findings import Failure

    st = explore.Stats()
    all_tasks = []
    for name, maxlen in plan:
        all_tasks.extend(tasks(name, maxlen))
    res = explore.pmap(run_task, all_tasks, chunksize=4)
    failures = []
    merged = {}
    counts = {}
    ntok = 0
    nexc = 0
    for (task, (n, nt, outs, fails, cnts)) in zip(all_tasks, res):
        st.runs += n
        ntok += nt
        st.outcomes |= outs
        for key, lst in fails.items():
            merged.setdefault(key, []).extend((s, d, task[0]) for s, d in lst)
        for key, c in cnts.items():
            counts[key] = counts.get(key, 0) + c
    st.states = st.runs
    st.transitions = max(1, st.runs - len(plan))
    for name, maxlen in plan:
        st.depth_hist[f"{name}"] = maxlen
    extra_n = 0
    if extra_cases:
        eres = explore.pmap(_analyse_text, [t for _, t in extra_cases], chunksize=8)
        for (label, text), (fl, sig) in zip(extra_cases, eres):
            extra_n += 1
            if sig is not None:
                st.outcomes.add(hash(sig))
            for kind, fsig, detail in fl:
                counts[(kind, fsig)] = counts.get((kind, fsig), 0) + 1
                merged.setdefault((kind, fsig), []).append((text, detail, label))
        st.runs += extra_n
    for (kind, fsig), lst in sorted(merged.items()):
        if kind == "exc":
            nexc += counts[(kind, fsig)]
        if kind not in kinds:
            continue
        lst.sort(key=lambda x: (len(x[0]), x[0]))
        s, d, origin = lst[0]
        for _ in range(1):
            failures.append(Failure(prop, fsig, f"{d}; input {s!r} ({counts[(kind, fsig)]} strings)",
                                    {"kind": "lex", "text": s, "want_kind": kind, "sig": fsig}))
    st.bump("tokens_checked", ntok)
    st.bump("strings_with_lexer_exception(C05's business)", nexc)
    st.bump("extra_cases", extra_n)
    if ntok == 0:
        raise HarnessError("no token was produced by any explored string")
    for name, maxlen in plan[:3]:
        a = ALPHABETS[name]
        st.sample({"alphabet": name, "string": "".join(a[(i * 3 + 1) % len(a)] for i in range(maxlen))})
    return st, failures


def replay_lex(payload, kinds):
    from ..findings import Failure

    fl, _ = analyse(payload["text"])
    return [Failure("?", fsig, d, payload) for kind, fsig, d in fl if kind in kinds]
