"""C02 -- every enforced Norm violation is reported on its line (DESIGN §4.2; shape S + deviation 1)."""
from __future__ import annotations

from .. import explore, progrun, impl
from ..common import CheckResult, BASE_ASSUMPTIONS, HarnessError
from ..findings import Failure
from ..model import norm, catalogue
from . import c01


def variants(ftype, ids, tier):
    """All (vid, code, site, text_body, expected_line) for the last block of history `ids`."""
    b = progrun.BOUNDS[tier]
    fname = "test" + ftype
    rp = norm.replay(ftype, ids, b, fname, with_preamble=False)
    comp = norm.completion(rp.st)
    lines = rp.lines + comp
    lo = rp.block_first_line[-1] - 1 if ids else 0
    hi = len(rp.lines)
    npre = len(norm.preamble(ftype, fname))
    for vid, (code, fn, ftypes) in catalogue.OPS.items():
        if ftype not in ftypes:
            continue
        for new_lines, exp_idx, site in fn(lines, lo, hi):
            exp = exp_idx if isinstance(exp_idx, tuple) else (exp_idx,)
            yield vid, code, site, norm.render(new_lines), tuple(npre + e + 1 for e in exp)


def judge_variant(ftype, fname, body, code, exp_line):
    pre, npre, pretext = progrun.pre_tokens(ftype, fname)
    r = impl.run_text(fname, body, pre_tokens=pre, line0=npre + 1, pretext=pretext)
    if r.exc is not None:
        return f"exception:{r.exc[0]}", r
    hit = any(d[0] == "Error" and d[1] == code and d[2] in exp_line for d in r.diags)
    if not hit:
        other = any(d[0] == "Error" and d[1] == code for d in r.diags)
        return ("wrong-line" if other else "missing"), r
    if r.status != "Error":
        return "status-not-Error", r
    return None, r


def edge_task(task):
    """Worker: every operator x every site on the last block of one history."""
    ftype, ids, tier = task
    fname = "test" + ftype
    out = []
    n = 0
    per_op = {}
    for vid, code, site, body, exp_line in variants(ftype, ids, tier):
        n += 1
        per_op[vid] = per_op.get(vid, 0) + 1
        prob, r = judge_variant(ftype, fname, body, code, exp_line)
        if prob:
            line = body.split("\n")[exp_line[0] - 1 - len(norm.preamble(ftype, fname))]
            out.append((vid, code, site, prob, exp_line, line, [d for d in r.diags if d[0] == "Error"][:6]))
    return n, per_op, out


EXPR_OPS = ("V34", "V35", "V36", "V37", "V38", "V39", "V40", "V44", "V45", "V46", "V47", "V78", "V79", "V80", "V01", "V03",
            "V05", "V83")


def expr_lines(tier, seed):
    """Statement lines holding every atom of the expression grammar (and a slice of the binary
    expressions) in four contexts, as piece lines inside a fixed function."""
    from . import c01_expr as ce
    from ..model.norm import Line, P
    head = [Line([P("raw", t)], "raw") for t in ce.FUNC_HEAD.rstrip("\n").split("\n")]
    tail = [Line([P("raw", t)], "raw") for t in ce.FUNC_TAIL.rstrip("\n").split("\n")]
    ctxs = ("assign", "if", "return", "arg1")
    out = []
    for lab, e, _ in ce.i_atoms():
        for ctx in ctxs:
            if ce._allowed(ctx, lab):
                out.append((f"atom:{lab}@{ctx}", head, ce.stmt_lines(ctx, e), tail))
    for lab, e in ce.p_atoms():
        for ctx in ("if", "arg1"):
            out.append((f"patom:{lab}@{ctx}", head, ce.stmt_lines(ctx, e), tail))
        out.append((f"patom:{lab}@assign", head, [norm.stmt_line(1, norm.assign(norm.V("p"), "=", e), "simple")], tail))
    ia = ce.i_atoms()
    k = seed
    if tier == "thorough":
        # the whole space the quick slices are drawn from, and two more pairings
        for rot in (7, 3, 11):
            for (la, a, _), (lb, b_, _) in zip(ia, ia[rot:] + ia[:rot]):
                for op in ce.BINOPS:
                    for ctx in ctxs:
                        if ce._allowed(ctx, la, lb):
                            out.append((f"bin:{la}{op}{lb}@{ctx}", head, ce.stmt_lines(ctx, norm.binop(a, op, b_)), tail))
        return out
    for (la, a, _), (lb, b_, _) in zip(ia, ia[7:] + ia[:7]):
        for op in ce.BINOPS[k % 3::3]:
            ctx = ctxs[k % len(ctxs)]
            k += 1
            if ce._allowed(ctx, la, lb):
                out.append((f"bin:{la}{op}{lb}@{ctx}", head, ce.stmt_lines(ctx, norm.binop(a, op, b_)), tail))
    return out


def edit_context(old, new):
    """Kinds of the non-blank tokens just before and just after the first character where the edited line
    differs from the original (input-side context of the edit, used in signatures)."""
    k = next((i for i, (a, b) in enumerate(zip(old, new)) if a != b), min(len(old), len(new)))
    toks, _, exc = impl.lex(new)
    if toks is None:
        return "?", "?"
    # visual columns are irrelevant here: work on character offsets through the aligner spans
    from ..model import lexref
    al = lexref.align(new, toks, set())
    if not al.get("ok"):
        return "?", "?"
    prev, nxt = "BOL", "EOL"
    for t, (a, b) in zip(toks, al["spans"]):
        if t.type in ("SPACE", "TAB", "NEWLINE"):
            continue
        if a < k:
            prev = t.type
        elif nxt == "EOL":
            nxt = t.type
    return _tclass(prev), _tclass(nxt)


_BINOPS = {"PLUS", "MINUS", "MULT", "DIV", "MODULO", "LESS_THAN", "MORE_THAN", "LESS_OR_EQUAL", "GREATER_OR_EQUAL", "EQUALS",
           "NOT_EQUAL", "AND", "OR", "BWISE_AND", "BWISE_OR", "BWISE_XOR", "LEFT_SHIFT", "RIGHT_SHIFT"}
_TYPES = {"INT", "CHAR", "LONG", "SHORT", "UNSIGNED", "SIGNED", "FLOAT", "DOUBLE", "VOID", "CONST", "STRUCT"}


def _tclass(t):
    """Token-kind classes used in C02 expression-site signatures (one class per whitelist of the spacing rules)."""
    if t in ("PLUS", "MINUS"):
        return "plusminus"
    if t in _BINOPS:
        return "binop"
    if t in ("NOT", "BWISE_NOT"):
        return "unary"
    if t in _TYPES:
        return "type"
    if t in ("CHAR_CONST", "STRING", "NULL"):
        return "literal"
    if t.endswith("_ASSIGN") or t == "ASSIGN":
        return "assign"
    return t.lower()


def _same_tokens(old, new):
    a, _, e1 = impl.lex(old)
    b, _, e2 = impl.lex(new)
    if a is None or b is None:
        return False
    f = lambda ts: [(t.type, t.value) for t in ts if t.type not in ("SPACE", "TAB")]
    return f(a) == f(b)


def expr_task(task):
    label, head, mid, tail = task
    lines = head + mid + tail
    lo, hi = len(head), len(head) + len(mid)
    fname = "test.c"
    npre = len(norm.preamble(".c", fname))
    out = []
    n = 0
    base_body = norm.render(lines)
    base = impl.run_text(fname, norm.render(norm.preamble(".c", fname)) + base_body)
    if base.exc is not None or any(d[0] == "Error" for d in base.diags):
        return 0, []          # the unedited statement is C01's business
    for vid in EXPR_OPS:
        code, fn, ftypes = catalogue.OPS[vid]
        for new_lines, exp_idx, site in fn(lines, lo, hi):
            exp = exp_idx if isinstance(exp_idx, tuple) else (exp_idx,)
            n += 1
            prob, r = judge_variant(".c", fname, norm.render(new_lines), code, tuple(npre + e + 1 for e in exp))
            if prob and not _same_tokens(lines[exp[0]].text(), new_lines[exp[0]].text()):
                continue        # the edit glued two lexemes into another one ('/ *p' -> '/*', '- -n' -> '--n'): not this operator's edit
            if prob:
                ctx = edit_context(lines[exp[0]].text(), new_lines[exp[0]].text())
                out.append((vid, code, f"{ctx[0]}>{ctx[1]}", prob, new_lines[exp[0]].text(), [d for d in r.diags if d[0] == "Error"][:4],
                            norm.render(new_lines)))
    return n, out


def ternary_cases():
    """A ternary in every expression context: (label, line, code, whole file text)."""
    from . import c01_expr as ce
    tern = norm.V("n") + [norm.SP(), norm.P("tern", "?"), norm.SP()] + norm.C("1") + [norm.SP(), norm.P("colon", ":"), norm.SP()] + norm.C("0")
    ttasks = []
    for ctx in ce.CONTEXTS:
        body = ce.body_for(ctx, tern)
        ttasks.append((f"ternary@{ctx}", 18, "TERNARY_FBIDDEN", norm.render(norm.preamble(".c", "test.c")) + body))
    hdrtxt = norm.render(norm.preamble(".c", "test.c"))
    ttasks.append(("ternary@nested-call-arg", 18, "TERNARY_FBIDDEN", hdrtxt + ce.FUNC_HEAD + "\tft_f(ft_g(n ? 1 : 0), n);\n" + ce.FUNC_TAIL))
    ttasks.append(("ternary@paren", 18, "TERNARY_FBIDDEN", hdrtxt + ce.FUNC_HEAD + "\tn = (n ? 1 : 0) + 1;\n" + ce.FUNC_TAIL))
    ttasks.append(("ternary@static-init", 15, "TERNARY_FBIDDEN", hdrtxt + "int\tft_test(int n)\n{\n\tstatic int\tx = 1 ? 2 : 3;\n\n\treturn (n + x);\n}\n"))
    ttasks.append(("ternary@global-init", 13, "TERNARY_FBIDDEN", hdrtxt + "static int\tg_x = 1 ? 2 : 3;\n\nint\tmain(void)\n{\n\treturn (g_x);\n}\n"))
    ttasks.append(("ternary@define", 13, "TERNARY_FBIDDEN", hdrtxt + "#define LIMIT (1 ? 2 : 3)\n\nint\tmain(void)\n{\n\treturn (0);\n}\n"))
    hh = norm.render(norm.preamble(".h", "test.h"))
    ttasks.append(("ternary@enumerator", 18, "TERNARY_FBIDDEN", hh + "typedef enum e_mode\n{\n\tMODE_A = 1 ? 1 : 2,\n\tMODE_B,\n\tMODE_C\n}\tt_mode;\n"
                   "\nint\t\tft_f(int n);\n\n#endif\n"))
    ttasks.append(("ternary@header-define", 16, "TERNARY_FBIDDEN", hh + "# define LIMIT (1 ? 2 : 3)\n\nint\tft_f(int n);\n\n#endif\n"))
    return ttasks


def dim_cases():
    """Operator spacing inside the dimension of an array declaration (local, global, second dimension): (label, line,
    code, whole file text).  `SIZE +2` / `SIZE -2` are left out: that is the recorded class plusminus>constant."""
    h = norm.render(norm.preamble(".c", "test.c"))
    out = []
    for op in ("*", "+", "-", "/", "%", "<<", "&", "|"):
        for sp, code in ((f"SIZE{op}2", "SPC_BFR_OPERATOR"), (f"SIZE {op}2", "SPC_AFTER_OPERATOR"), (f"SIZE{op} 2", "SPC_BFR_OPERATOR")):
            if op in "+-" and code == "SPC_AFTER_OPERATOR":
                continue
            out.append((f"dim:local:{sp}", 15, code, h + f"int\tft_test(int n)\n{{\n\tchar\tbuf[{sp}];\n\n\tbuf[0] = n;\n\treturn (n);\n}}\n"))
            out.append((f"dim:global:{sp}", 13, code, h + f"static char\tg_buf[{sp}];\n\nint\tmain(void)\n{{\n\treturn (0);\n}}\n"))
            out.append((f"dim:second:{sp}", 15, code, h + f"int\tft_test(int n)\n{{\n\tchar\tbuf[4][{sp}];\n\n\tbuf[0][0] = n;\n\treturn (n);\n}}\n"))
    # a variable-length array: the variable size in the first, the second or the third dimension
    for dims in ("[n]", "[3][n]", "[n][3]", "[2][4][n]", "[SIZE][n + 1]", "[n * 2]"):
        out.append((f"vla:local:{dims}", 15, "VLA_FORBIDDEN", h + f"int\tft_test(int n)\n{{\n\tchar\tbuf{dims};\n\n\tbuf[0] = n;\n\treturn (n);\n}}\n"))
    return out


def declassign_cases():
    """A local declared and initialised on one line (DECL_ASSIGN_LINE), the initialiser / declarator taken from every
    shape of expression: (label, line, code, whole file text).  A static or const local may be initialised."""
    h = norm.render(norm.preamble(".c", "test.c"))
    inits = [("int", "n", "n + 1"), ("size_t", "len", "ft_strlen((const char *)src)"), ("size_t", "len", "sizeof(const t_list)"),
             ("char", "*str", "(char *)src"), ("int", "val", "ft_f(n, (n), sizeof(n))"), ("long", "big", "(long)n * 2"),
             ("char", "chr", "'c'"), ("char", "*msg", "\"static const\""), ("int", "res", "n > 0"), ("t_list", "*cur", "lst->next"),
             ("int", "tab[2]", "{1, 2}"), ("unsigned int", "mask", "~0u"), ("int", "neg", "-n"), ("char", "**ptr", "0")]
    out = []
    for t, nm, init in inits:
        col = norm.min_col(t, 1)
        decl = "\t" + t + norm.tabs_to(5 + len(t), col) + nm + " = " + init + ";\n"
        text = h + "int\tft_test(int n, const void *src, t_list *lst)\n{\n" + decl + "\n\treturn (n);\n}\n"
        out.append((f"declassign:{t}:{init[:24]}", 15, "DECL_ASSIGN_LINE", text))
    # a function-pointer local whose parameter list holds `const`
    out.append(("declassign:fptr:const-param", 15, "DECL_ASSIGN_LINE",
                h + "int\tft_test(int n, const void *src, t_list *lst)\n{\n\tvoid\t(*put)(const char *) = ft_putstr;\n\n\treturn (n);\n}\n"))
    return out


def _wrapped_task(task):
    label, ln, code, text = task
    r = impl.run_text("test.h" if "#ifndef TEST_H" in text else "test.c", text)
    if r.exc is not None:
        return "exception:" + r.exc[0]
    if not any(d[0] == "Error" and d[1] == code and d[2] == ln for d in r.diags):
        return "wrong-line" if any(d[1] == code for d in r.diags) else "missing"
    return None


def run(tier, seed):
    st = explore.Stats()
    failures = []
    edges_all = []
    total = 0
    for ftype in (".c", ".h"):
        sink = []
        picked = {}

        def on(h, o, picked=picked):
            ids = h[2]
            if not ids:
                return
            k = (ids[-1], o.get("scope"))
            if k not in picked:
                picked[k] = h
            if tier == "thorough":
                k2 = (ids[-1], o.get("mcls"))
                if k2 not in picked:
                    picked[k2] = h

        seen, edges = c01.search(ftype, tier, st, sink, on=on)
        total += len(seen)
        chosen = {h: None for (par, h, k, new) in edges if new}
        for h in picked.values():
            chosen.setdefault(h, None)
        edges_all += list(chosen)
        st.bump(f"edited_transitions{ftype}", len(chosen))
    st.states = total
    tasks = [(h[0], h[2], tier) for h in edges_all]
    res = explore.pmap(edge_task, tasks, chunksize=4)
    per_op = {}
    first_site = {}
    for t, (n, po, out) in zip(tasks, res):
        st.runs += n
        st.transitions += n
        for vid, c in po.items():
            per_op[vid] = per_op.get(vid, 0) + c
            first_site.setdefault(vid, t)
        for (vid, code, site, prob, exp_line, line, diags) in out:
            ids = t[1]
            blk = ids[-1].split(":")[0] if ids else "init"
            failures.append(Failure(
                "C02", f"{vid}:{code}:{prob}:site={site}:block={blk}",
                f"{vid} ({code}) at {site} after {ids[-2:]}: {prob}; edited line {line!r}; errors {diags[:3]}",
                {"ftype": t[0], "ids": list(ids), "tier": tier, "vid": vid, "site": site, "exp_line": list(exp_line)}))
    # operators on the statements of the expression enumeration (every atom kind in four contexts)
    etasks = expr_lines(tier, seed)
    eres = explore.pmap(expr_task, etasks, chunksize=2)
    ne = 0
    for t, (n, out) in zip(etasks, eres):
        ne += n
        for (vid, code, site, prob, line, diags, body) in out:
            failures.append(Failure("C02", f"{vid}:{code}:{prob}:expr:{site}",
                                    f"{vid} ({code}) in {t[0]}: {prob}; edited line {line!r}; errors {diags[:3]}",
                                    {"kind": "expr", "vid": vid, "body": body, "code": code, "line": line}))
    st.runs += ne
    st.transitions += ne
    st.bump("expression_site_runs", ne)
    # a ternary in every expression context (V25 generalised): assignment, compound assignment, conditions, return,
    # both argument positions, index, nested call argument, declaration initialiser, global initialiser, #define value
    ttasks = ternary_cases()
    tres = explore.pmap(_wrapped_task, ttasks, chunksize=2)
    st.runs += len(ttasks)
    st.bump("ternary_context_runs", len(ttasks))
    for (label, ln, code, text), prob in zip(ttasks, tres):
        if prob:
            failures.append(Failure("C02", f"V25:{code}:{prob}:{label}", f"a ternary in context {label.split('@')[1]}: {prob}",
                                    {"kind": "wrapped", "text": text, "code": code, "line": ln}))
    dtasks = dim_cases() + declassign_cases()
    dres = explore.pmap(_wrapped_task, dtasks, chunksize=4)
    st.runs += len(dtasks)
    st.bump("array_dimension_runs", len(dtasks))
    for (label, ln, code, text), prob in zip(dtasks, dres):
        if prob:
            what = "operator spacing in an array dimension" if label.startswith("dim:") else "variable-length array" if label.startswith("vla:") else "declaration with initialiser"
            failures.append(Failure("C02", f"{'V34/35' if label.startswith('dim:') else 'V-vla' if label.startswith('vla:') else 'V-decl-assign'}:{code}:{prob}:{label if label.startswith('vla:') else label.rsplit(':', 1)[0]}", f"{what} ({label}): {prob}",
                                    {"kind": "wrapped", "text": text, "code": code, "line": ln}))
    # V28 generalised: every parameter shape (scalar, pointer, array, const, function pointer) at every position of a
    # prototype loses its name
    PARAMS = [("int ", "n", ""), ("char *", "s", ""), ("const char **", "tab", ""), ("char ", "buf", "[]"), ("t_list *", "lst", ""),
              ("int (*", "cmp", ")(int, int)"), ("void (*", "fn", ")(char *)"), ("unsigned int ", "count", "")]
    hdrtxt = norm.render(norm.preamble(".c", "test.c"))
    ptasks = []
    for i, a in enumerate(PARAMS):
        for j, b_ in enumerate(PARAMS):
            if i == j:
                continue
            for c_ in (None, PARAMS[(i + j) % len(PARAMS)]):
                ps = [a, b_] + ([c_] if c_ and c_ not in (a, b_) else [])
                full = ", ".join(x[0] + x[1] + x[2] for x in ps)
                for k in range(len(ps)):
                    dropped = ", ".join((x[0].rstrip(" ") if (m == k and x[0].endswith(" ")) else x[0]) + ("" if m == k else x[1]) + x[2]
                                        for m, x in enumerate(ps))
                    text = hdrtxt + f"int\tft_subject({dropped});\n\nint\tmain(void)\n{{\n\treturn (0);\n}}\n"
                    if len(f"int\tft_subject({full});") + 3 <= 80:
                        ptasks.append((f"unnamed:{ps[k][0].strip()}{ps[k][2]}@{k + 1}of{len(ps)}:after={ps[k - 1][0].strip() + ps[k - 1][2] if k else 'none'}",
                                       13, "MISSING_IDENTIFIER", text))
    pres = explore.pmap(_wrapped_task, ptasks, chunksize=8)
    st.runs += len(ptasks)
    st.bump("unnamed_parameter_runs", len(ptasks))
    for (label, ln, code, text), prob in zip(ptasks, pres):
        if prob:
            failures.append(Failure("C02", f"V28:{code}:{prob}:{label}", f"prototype parameter without a name ({label}): {prob}",
                                    {"kind": "wrapped", "text": text, "code": code, "line": ln}))
    # statements spanning two physical lines (wrapped condition, call, return, assignment, signature, prototype):
    # a trailing blank on each physical line
    from . import c03
    wtasks = []
    seenw = set()
    for label, text, lw in c03.wrapped_cases("quick"):
        if label in seenw or any(w > 79 for _, w in lw):
            continue
        seenw.add(label)
        tl = text.split("\n")
        for ln, _w in lw:
            for blank, code in ((" ", "SPC_BEFORE_NL"),):
                t2 = list(tl)
                t2[ln - 1] = t2[ln - 1] + blank
                wtasks.append((label, ln, code, "\n".join(t2)))
    wres = explore.pmap(_wrapped_task, wtasks, chunksize=2)
    st.runs += len(wtasks)
    st.bump("wrapped_statement_runs", len(wtasks))
    for (label, ln, code, text), prob in zip(wtasks, wres):
        if prob:
            which = "first" if ln in (13, 15) else "continuation"
            failures.append(Failure("C02", f"V01:{code}:{prob}:{label}:{which}-line", f"trailing blank on the {which} line of {label}: {prob}",
                                    {"kind": "wrapped", "text": text, "code": code, "line": ln}))
    for vid in catalogue.OPS:
        st.bump("sites:" + vid, per_op.get(vid, 0))
    zero = [vid for vid in catalogue.OPS if per_op.get(vid, 0) == 0]
    if zero:
        raise HarnessError(f"operators without any site in the explored graph: {zero}")
    # V13 and the command-level clauses (c): one variant per operator through main()
    cli_tasks = []
    for vid, t in first_site.items():
        for v, code, site, body, exp_line in variants(t[0], t[1], tier):
            # the command-level clause is checked on a site where the diagnostic itself is produced
            # (a site where it is missing is already a failure of clause (a))
            if v == vid and judge_variant(t[0], "test" + t[0], body, code, exp_line)[0] is None:
                fname = "test" + t[0]
                text = norm.render(norm.preamble(t[0], fname)) + body
                cli_tasks.append((vid, (fname, text, ["--no-colors"])))
                break
    fname = "test.c"
    base = norm.render(norm.preamble(".c", fname)) + "int\tmain(void)\n{\n\treturn (0);\n}\n"
    cli_tasks.append(("V13", (fname, "\n" + base, ["--no-colors"])))
    cres = explore.pmap(progrun.cli_text, [t for _, t in cli_tasks], chunksize=2)
    st.runs += len(cli_tasks)
    for (vid, t), o in zip(cli_tasks, cres):
        code = catalogue.OPS[vid][0] if vid in catalogue.OPS else "EMPTY_LINE_FILE_START"
        ok = o["code"] not in (0, None) and o["stdout"].startswith(t[0] + ": Error!") and o["exc"] is None
        if vid == "V13":
            ok = ok and "EMPTY_LINE_FILE_START" in o["stdout"] and "(line:   1" in o["stdout"].split("EMPTY_LINE_FILE_START")[1][:30]
        else:
            ok = ok and code in o["stdout"]
        if not ok:
            failures.append(Failure("C02", f"{vid}:cli:exit={o['code']}",
                                    f"main() on a file with violation {vid}: exit {o['code']}, stdout {o['stdout'][:100]!r}",
                                    {"kind": "cli", "vid": vid, "fname": t[0], "text": t[1]}))
    st.bump("cli_runs", len(cli_tasks))
    st.sample({"operator": "V34", "example_sites": per_op.get("V34", 0)})
    if edges_all:
        h = edges_all[len(edges_all) // 2]
        vs = list(variants(h[0], h[2], tier))
        if vs:
            st.sample({"history": list(h[2]), "operator": vs[0][0], "site": vs[0][2], "expected_line": list(vs[0][4]),
                       "text_tail": vs[0][3].split("\n")[-12:]})
    return CheckResult(
        st, failures,
        rule="for every state-creating transition of the C01 product graph, every catalogue operator applied at every "
             "site of the last block (one deviation): the operator's diagnostic code must be reported at Error level on "
             "the expected line and the status must be Error; one variant per operator also through main(); "
             "distinct = operators x site kinds exercised",
        exhaustive=not st.caps,
        bounds={"model": progrun.BOUNDS[tier]._asdict(), "operators": len(catalogue.OPS) + 1},
        alphabet={"operators": len(catalogue.OPS) + 1},
        assumptions=BASE_ASSUMPTIONS + ["mc/model/catalogue.py: each operator really breaks the Norm sentence it is tied to"],
        distinct=sum(1 for v in per_op.values() if v),
    )


def replay(payload):
    if payload.get("kind") == "wrapped":
        prob = _wrapped_task(("", payload["line"], payload["code"], payload["text"]))
        return [Failure("C02", "V01:wrapped:" + prob, prob, payload)] if prob else []
    if payload.get("kind") == "expr":
        lines = payload["body"].split("\n")
        exp = tuple(len(norm.preamble(".c", "test.c")) + i + 1 for i, l in enumerate(lines) if l == payload["line"])
        prob, r = judge_variant(".c", "test.c", payload["body"], payload["code"], exp)
        return [Failure("C02", f"{payload['vid']}:{prob}", str(r.diags[:4]), payload)] if prob else []
    if payload.get("kind") == "cli":
        o = progrun.cli_text((payload["fname"], payload["text"], ["--no-colors"]))
        if not (o["code"] not in (0, None) and o["stdout"].startswith(payload["fname"] + ": Error!")):
            return [Failure("C02", f"{payload['vid']}:cli", str(o)[:200], payload)]
        return []
    ftype, ids, tier = payload["ftype"], tuple(payload["ids"]), payload["tier"]
    out = []
    for vid, code, site, body, exp_line in variants(ftype, ids, tier):
        if vid == payload["vid"] and site == payload["site"] and list(exp_line) == list(payload["exp_line"]):
            prob, r = judge_variant(ftype, "test" + ftype, body, code, exp_line)
            if prob:
                out.append(Failure("C02", f"{vid}:{code}:{prob}", f"{prob} {r.diags[:4]}", payload))
    return out
