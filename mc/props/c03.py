"""C03 -- numeric limits are enforced exactly at their boundary (DESIGN §4.3).

Every (limit, context) pair is a chain of 10 states n = L-3 .. L+6 (transitions: one more
column / line / function / parameter / variable); the iff oracle is computed by the model.
"""
from __future__ import annotations

import itertools

from .. import explore, impl, progrun
from ..common import CheckResult, BASE_ASSUMPTIONS, HarnessError
from ..findings import Failure
from ..model import norm, header42
from ..model.lexref import line_width

HDR_C = header42.header_text("test.c") + "\n"
HDR_H = header42.header_text("test.h") + "\n"
F1 = "int\tft_first(int n, char *p)\n{\n%s\tp[n] = 0;\n\treturn (n);\n}\n"
F2 = "int\tft_second(void)\n{\n\treturn (0);\n}\n"


def pad_to(prefix, suffix, w, fill="x"):
    """prefix + fill*k + suffix of displayed width exactly w (None if impossible)."""
    base = line_width(prefix + suffix)
    # fill characters are plain (width 1) and are placed where no tab follows inside prefix
    k = w - base
    if k < 1:
        return None
    line = prefix + fill * k + suffix
    if line_width(line) != w:
        return None
    return line


# ---------------------------------------------------------------- 80 columns

def col_cases(tier):
    """Yield (label, ftype, text, subject_line_number, w)."""
    widths = range(77, 87)
    deep = "\twhile (n)\n\t{\n%s\t}\n"
    deeper = "\twhile (n)\n\t{\n\t\tif (p)\n\t\t{\n%s\t\t}\n\t}\n"
    # (kind, position, builder(w) -> (text_before, subject, text_after, ftype))
    top_kinds = {
        "include": lambda w: pad_to("#include <", ".h>", w, "a"),
        "define": lambda w: pad_to("#define LIMIT_", " 42", w, "A"),
        "define-value": lambda w: pad_to('#define PROMPT "', '"', w, "s"),
        "global": lambda w: pad_to("static int\tg_", ";", w, "a"),
        "proto": lambda w: pad_to("int\tft_", "(int n, char *p);", w, "a"),
        "linecomment": lambda w: pad_to("// ", "", w, "c"),
        "blockcomment1": lambda w: pad_to("/* ", " */", w, "c"),
        "linecomment-tab1": lambda w: pad_to("//\t", "", w, "c"),
        "linecomment-tab2": lambda w: pad_to("// a\t", "", w, "c"),
        "linecomment-tab3": lambda w: pad_to("// ab\t", "", w, "c"),
        "linecomment-tab0": lambda w: pad_to("// abc\t", "", w, "c"),
        "blockcomment1-tab": lambda w: pad_to("/* a\t", " */", w, "c"),
        "global-eolcomment": lambda w: pad_to("static int\tg_val; // ", "", w, "c"),
        # comments that hold a tab and do not start on a tab stop (after code, or -- a violation of its own -- after blanks)
        "global-eolcomment-tab": lambda w: pad_to("static int\tg_val; //\t", "", w, "c"),
        "global-eolcomment-tab2": lambda w: pad_to("static int\tg_v; // a\t", "", w, "c"),
        "linecomment-sp1-tab": lambda w: pad_to(" //\t", "", w, "c"),
        "linecomment-sp2-tab": lambda w: pad_to("  // a\t", "", w, "c"),
        "linecomment-sp3-tab": lambda w: pad_to("   //\tb\t", "", w, "c"),
        "blockcomment1-sp1-tab": lambda w: pad_to(" /* a\t", " */", w, "c"),
    }
    for kind, mk in top_kinds.items():
        for w in widths:
            s = mk(w)
            if s is None:
                continue
            # before the first function
            pre = "" if kind not in ("include",) else ""
            text = HDR_C + s + "\n\n" + (F1 % "") + "\n" + F2
            yield (f"col:{kind}:before-first", ".c", text, 13, w)
            if kind in ("linecomment", "blockcomment1", "linecomment-tab1", "linecomment-tab2", "linecomment-tab3",
                        "linecomment-tab0", "blockcomment1-tab", "proto", "define") or "-sp" in kind:
                gap = "\n" if kind in ("proto", "define") else ""
                text = HDR_C + (F1 % "") + "\n" + s + "\n" + gap + F2
                ln = 12 + (F1 % "").count("\n") + 1 + 1
                yield (f"col:{kind}:between-functions", ".c", text, ln, w)
            if kind.startswith(("linecomment", "blockcomment1", "global-eolcomment")):
                base = HDR_C + (F1 % "") + "\n" + F2
                ln = base.count("\n") + 1
                yield (f"col:{kind}:last-line-nl", ".c", base + s + "\n", ln, w)
                yield (f"col:{kind}:last-line-nonl", ".c", base + s, ln, w)
    # multi-line block comments: first / interior / last line, with and without an interior tab
    for which in ("first", "interior", "last"):
        for tab in ("", "a\t", "ab\t", "abc\t", "\t"):
            for w in widths:
                rows = ["/*", "** text", "** more", "*/"]
                if which == "first":
                    s = pad_to("/* " + tab, "", w, "c")
                    rows[0] = s
                    off = 0
                elif which == "interior":
                    s = pad_to("** " + tab, "", w, "c")
                    rows[1] = s
                    off = 1
                else:
                    s = pad_to("** " + tab, " */", w, "c")
                    rows = ["/*", "** text", s]
                    off = 2
                if s is None:
                    continue
                block = "\n".join(rows) + "\n"
                text = HDR_C + block + (F1 % "") + "\n" + F2
                yield (f"col:blockcomment-{which}{'-tab' + str(len(tab) % 4) if tab else ''}:before-first", ".c", text, 13 + off, w)
                base = HDR_C + (F1 % "") + "\n" + F2
                ln = base.count("\n") + 1
                yield (f"col:blockcomment-{which}{'-tab' + str(len(tab) % 4) if tab else ''}:last-nl", ".c", base + block, ln + off, w)
                if which == "last":
                    yield (f"col:blockcomment-last{'-tab' + str(len(tab) % 4) if tab else ''}:eof-nonl", ".c", base + block[:-1], ln + off, w)
    # multi-line block comments that do not open in column 1 (after a declaration on the same line; indented in a
    # body): the interior and last lines are measured from their own column 1
    for w in widths:
        inter = pad_to("** ", "", w, "c")
        last = pad_to("** ", " */", w, "c")
        if inter is not None:
            text = HDR_C + "int\tg_a; /* opens late\n" + inter + "\n*/\n\n" + (F1 % "") + "\n" + F2
            yield ("col:blockcomment-offset-sp-interior:after-global", ".c", text, 14, w)
            text = HDR_C + (F1 % ("\tn = 0; /* opens late\n" + inter + "\n*/\n")) + "\n" + F2
            yield ("col:blockcomment-offset-sp-interior:in-body", ".c", text, 12 + 2 + 2, w)
        if last is not None:
            text = HDR_C + "int\tg_a; /* opens late\n" + last + "\n\n" + (F1 % "") + "\n" + F2
            yield ("col:blockcomment-offset-sp-last:after-global", ".c", text, 14, w)
    # code lines inside a body, depth 1..3, declaration, signature
    for w in widths:
        for depth, wrap in ((1, "%s"), (2, deep), (3, deeper)):
            ind = "\t" * depth
            for kind, pre, suf in (("assign", "n = ft_", "(n);"), ("call", "ft_", "(n, p);"), ("return", "return (ft_", "(n));"),
                                   ("cond", "if (ft_", "(n))")):
                s = pad_to(ind + pre, suf, w, "a")
                if s is None:
                    continue
                inner = s + "\n" + (ind + "\tn = 0;\n" if kind == "cond" else "")
                body = wrap % inner
                text = HDR_C + (F1 % body) + "\n" + F2
                ln = 12 + 2 + (wrap.split("%s")[0].count("\n")) + 1
                yield (f"col:code-{kind}-depth{depth}:in-body", ".c", text, ln, w)
        s = pad_to("\tint\t", ";", w, "a")
        body_decl = s + "\n\n"
        text = HDR_C + "int\tft_first(int n, char *p)\n{\n" + body_decl + "\tp[n] = 0;\n\treturn (n);\n}\n\n" + F2
        yield ("col:decl:in-body", ".c", text, 15, w)
        s = pad_to("int\tft_", "(int n, char *p)", w, "a")
        text = HDR_C + s + "\n{\n\tp[n] = 0;\n\treturn (n);\n}\n\n" + F2
        yield ("col:funcsig:first", ".c", text, 13, w)
        text = HDR_C + F2 + "\n" + s + "\n{\n\tp[n] = 0;\n\treturn (n);\n}\n"
        yield ("col:funcsig:second", ".c", text, 12 + F2.count("\n") + 2, w)
        # header: struct field, typedef closing line
        s = pad_to("\tint\t", ";", w, "a")
        guard = "#ifndef TEST_H\n# define TEST_H\n\n"
        text = HDR_H + guard + "typedef struct s_point\n{\n" + s + "\n}\tt_point;\n\n#endif\n"
        yield ("col:field:header", ".h", text, 18, w)
        s = pad_to("}\tt_", ";", w, "a")
        text = HDR_H + guard + "typedef struct s_point\n{\n\tint\tx;\n" + s + "\n\n#endif\n"
        yield ("col:typedef-close:header", ".h", text, 19, w)


def wrapped_cases(tier):
    """Statements spanning two physical lines: each line is judged on its own
    (yield label, text, [(line, width), (line, width)])."""
    forms = {
        "cond": ("\tif (ft_", "(n) > 0", "\t\t&& ft_", "(p))", "\t\tn = 0;\n"),
        "call": ("\tft_", "(n,", "\t\tft_", "(p));", ""),
        "return": ("\treturn (ft_", "(n)", "\t\t+ ft_", "(p));", ""),
        "assign": ("\tn = ft_", "(n,", "\t\t\tft_", "(p));", ""),
    }
    pairs = [(77, 77)] + [(w1, w2) for w1 in (79, 80, 81, 82) for w2 in range(77, 87)] + [(w1, 81) for w1 in range(77, 87)] + \
            [(w1, 80) for w1 in range(77, 87)]
    for name, (a1, z1, a2, z2, tail) in forms.items():
        for w1, w2 in dict.fromkeys(pairs):
            l1 = pad_to(a1, z1, w1, "a")
            l2 = pad_to(a2, z2, w2, "b")
            if l1 is None or l2 is None:
                continue
            body = l1 + "\n" + l2 + "\n" + tail
            text = HDR_C + "int\tft_first(int n, char *p)\n{\n" + body + "\treturn (n);\n}\n"
            yield (f"col2:wrapped-{name}", text, [(15, w1), (16, w2)])
    # signature continued on a second line
    for w1, w2 in dict.fromkeys(pairs):
        l1 = pad_to("int\tft_", "(int n,", w1, "a")
        l2 = pad_to("\t\tchar *p_", ")", w2, "b")
        if l1 and l2:
            yield ("col2:wrapped-signature", HDR_C + l1 + "\n" + l2 + "\n{\n\treturn (n);\n}\n", [(13, w1), (14, w2)])


# ---------------------------------------------------------------- 25 lines

def body_shapes(n, tier):
    """Bodies with exactly n lines between the braces.  Yield (shape label, body text)."""
    st = "\tn = n + 1;\n"
    # flat
    if n >= 1:
        yield ("flat", st * (n - 1) + "\treturn (n);\n")
    for d in (2, 5):
        k = n - d - 2
        if k >= 0:
            decls = "".join(f"\tint\t{nm};\n" for nm in ("aa", "bb", "cc", "dd", "ee")[:d])
            yield (f"decls{d}", decls + "\n" + st * k + "\treturn (n);\n")
    k = n - 4
    if k >= 1:
        yield ("braced-while", "\twhile (n)\n\t{\n" + "\t\tn--;\n" * k + "\t}\n\treturn (n);\n")
    k = n - 7
    if k >= 1:
        yield ("nested2", "\twhile (n)\n\t{\n\t\tif (p)\n\t\t{\n" + "\t\t\tn--;\n" * k + "\t\t}\n\t}\n\treturn (n);\n")
    k = n - 10
    if k >= 1:
        yield ("nested3", "\twhile (n)\n\t{\n\t\tif (p)\n\t\t{\n\t\t\twhile (*p)\n\t\t\t{\n" + "\t\t\t\tp++;\n" * k
               + "\t\t\t}\n\t\t}\n\t}\n\treturn (n);\n")
    # the same shapes filled with every kind of expression statement (a counter must not depend on what the
    # counted lines contain)
    rich = _rich_statements()
    if n >= 2:
        yield ("rich-flat", "".join("\t" + rich[i % len(rich)] + "\n" for i in range(n - 1)) + "\treturn (n);\n")
    k = n - 4
    if k >= 1:
        yield ("rich-braced-while", "\twhile (n)\n\t{\n" + "".join("\t\t" + rich[i % len(rich)] + "\n" for i in range(k))
               + "\t}\n\treturn (n);\n")
    k = n - 7
    if k >= 1:
        yield ("rich-nested2", "\twhile (n)\n\t{\n\t\tif (p)\n\t\t{\n" + "".join("\t\t\t" + rich[(i + 5) % len(rich)] + "\n" for i in range(k))
               + "\t\t}\n\t}\n\treturn (n);\n")
    # lines that hold more than one statement of the engine: an instruction followed by a comment, two instructions,
    # a declaration with a comment, an empty statement after an instruction (each is one *line* of the body)
    if n >= 4:
        for k_ in (1, 3):
            yield (f"odd-eolcomment{k_}", "\tn = n + 1; // note\n" * k_ + st * (n - 1 - k_) + "\treturn (n);\n")
            yield (f"odd-eolblock{k_}", "\tn = n + 1; /* note */\n" * k_ + st * (n - 1 - k_) + "\treturn (n);\n")
            yield (f"odd-twoinstr{k_}", "\tn = n + 1; n = n + 2;\n" * k_ + st * (n - 1 - k_) + "\treturn (n);\n")
            yield (f"odd-emptystmt{k_}", "\tn = n + 1;;\n" * k_ + st * (n - 1 - k_) + "\treturn (n);\n")
    # brace-less control structures whose single instruction is itself a control structure (chains of 3 and 4 lines)
    if n >= 8:
        for k_ in (1, 2):
            chain3 = "\tif (n)\n\t\twhile (p[n])\n\t\t\tn++;\n"
            yield (f"odd-chain3x{k_}", chain3 * k_ + st * (n - 1 - 3 * k_) + "\treturn (n);\n")
        chain4 = "\tif (n)\n\t\twhile (p[n])\n\t\t\tif (n > 1)\n\t\t\t\tn++;\n"
        yield ("odd-chain4", chain4 + st * (n - 5) + "\treturn (n);\n")
        yield ("odd-chain-else", "\tif (n)\n\t\twhile (p[n])\n\t\t\tn++;\n\telse\n\t\twhile (n)\n\t\t\tn--;\n" + st * (n - 8) + "\treturn (n);\n")
    if n >= 4:
        yield ("odd-declcomment", "\tint\taa; // counter\n\n" + st * (n - 3) + "\treturn (n);\n")
        yield ("odd-last-eolcomment", st * (n - 1) + "\treturn (n); // done\n")
    pairs, rest = divmod(n - 1, 4)
    if pairs >= 1:
        yield ("braceless-ifelse", ("\tif (n)\n\t\tn--;\n\telse\n\t\tn++;\n" * pairs) + st * rest + "\treturn (n);\n")
    if tier == "thorough":
        k = n - 3
        if k >= 1:
            yield ("braceless-while-first", "\twhile (p[n])\n\t\tn++;\n" + st * (k - 0) + "\treturn (n);\n"[: 0] + "")


_rich = None


def _rich_statements():
    global _rich
    if _rich is None:
        from . import c01_expr as ce
        out = []
        for lab, e, _ in ce.i_atoms():
            if lab in ce.SIDE_EFFECT:
                out.append("".join(p.text for p in e) + ";")
            else:
                out.append("".join(p.text for p in norm.assign(norm.V("n"), "=", e)))
        for lab, e in ce.p_atoms():
            out.append("".join(p.text for p in norm.assign(norm.V("p"), "=", e)))
        out.append("ft_f(n, (n), sizeof(n));")
        _rich = out
    return _rich


def line_cases(tier):
    for n in range(22, 32):
        for shape, body in body_shapes(n, tier):
            if body.count("\n") != n:
                continue
            for pos in (1, 2, 5) if tier == "quick" else (1, 2, 3, 4, 5):
                for proto in ((False,) if tier == "quick" and pos != 1 else (False, True)):
                    for sig in ("int\tft_subject(int n, char *p, char c, t_list *lst)", "static int\tft_subject(int n, char *p)",
                                "char\t*ft_subject(int n, char *p)")[: 1 if (tier == "quick" and pos != 1) else 3]:
                        b = body if not sig.startswith("char") else body.replace("return (n);", "return (p);")
                        funcs = [f"int\tft_other{i}(void)\n{{\n\treturn ({i});\n}}\n" for i in range(pos - 1)]
                        subject = sig + "\n{\n" + b + "}\n"
                        text = HDR_C + ("int\tft_declared(int n);\n\n" if proto else "")
                        text += "\n".join(funcs + [subject])
                        close_line = text.count("\n")
                        yield (f"lines:{shape}:pos{pos}{':proto' if proto else ''}:{sig.split(chr(9))[0]}", text, n, close_line)


# ---------------------------------------------------------------- 5 functions / 4 params / 5 vars

def func_cases(tier):
    for f in range(2, 12):
        for variant in ("plain", "static", "protos", "comments", "comment-before-brace", "two-comments-before-brace",
                        "ifdef-before-brace", "comment-after-signature-eol"):
            parts = []
            sig_lines = []
            text = HDR_C
            if variant == "protos":
                text += "int\tft_declared(int n);\n\n"
            for i in range(f):
                if variant == "comments" and i:
                    text += "// function %d\n" % i
                sig_lines.append(text.count("\n") + 1)
                pre = "static " if (variant == "static" and i % 2) else ""
                between = {"comment-before-brace": "// body follows\n", "two-comments-before-brace": "// body\n/* follows */\n",
                           "ifdef-before-brace": "#ifdef DEBUG\n#endif\n"}.get(variant, "") if i % 2 == 1 else ""
                eol = " // entry" if variant == "comment-after-signature-eol" and i % 2 == 1 else ""
                text += f"{pre}int\tft_fn{i}(int n){eol}\n{between}{{\n\treturn (n + {i});\n}}\n"
                if i != f - 1:
                    text += "\n"
            yield (f"funcs:{variant}", text, f, sig_lines)


PARAM_POOL = ["int a", "char *b", "const char *c", "char **d", "int e[]", "t_list *f", "unsigned int g", "long h",
              "void *i", "size_t j"]


def param_cases(tier):
    for n in range(1, 11):
        for rot in range(0, len(PARAM_POOL), 1 if tier == "thorough" else 3):
            ps = [PARAM_POOL[(rot + k) % len(PARAM_POOL)].rsplit(" ", 1) for k in range(n)]
            ps = ", ".join(f"{t} {nm[:-1] if not nm.startswith('*') else nm[:-1]}{k}" if False else f"{t} {nm}" for k, (t, nm) in enumerate(ps))
            # names must be unique: the pool already has distinct names
            sig = f"int\tft_subject({ps})"
            if line_width(sig) <= 80:
                text = HDR_C + sig + "\n{\n\treturn (0);\n}\n"
                yield (f"params:definition:rot{rot}", text, n, 13)
            proto = f"int\tft_subject({ps});"
            if line_width(proto) <= 80:
                text = HDR_C + proto + "\n\n" + F2
                yield (f"params:prototype:rot{rot}", text, n, 13)
    # a function returning a function pointer: its own list is counted, never the list of the returned pointer; and a
    # function-pointer parameter counts once, whatever its own arity
    names = "abcdefghij"
    for n in range(1, 11):
        own = ", ".join(f"int {names[i]}" for i in range(n))
        for m in (1, 4, 5, 6):
            tr = ", ".join(["int"] * m)
            sig = f"void\t(*ft_subject({own}))({tr})"
            if line_width(sig) <= 80:
                yield (f"params:fptr-return-definition:trailing{m}", HDR_C + sig + "\n{\n\treturn (0);\n}\n", n, 13)
            if line_width(sig + ";") <= 80:
                yield (f"params:fptr-return-prototype:trailing{m}", HDR_C + sig + ";\n\n" + F2, n, 13)
        for arity in (1, 2, 4, 5):
            inner = ", ".join(["int"] * arity)
            for pos in (0, n - 1):
                ps = [f"int {names[i]}" for i in range(n)]
                ps[pos] = f"int (*{names[pos]})({inner})"
                sig = f"int\tft_subject({', '.join(ps)})"
                if line_width(sig) <= 80:
                    yield (f"params:fptr-param-definition:arity{arity}:{'first' if pos == 0 else 'last'}", HDR_C + sig + "\n{\n\treturn (0);\n}\n", n, 13)
                if line_width(sig + ";") <= 80:
                    yield (f"params:fptr-param-prototype:arity{arity}:{'first' if pos == 0 else 'last'}", HDR_C + sig + ";\n\n" + F2, n, 13)


VAR_POOL = [("int", "a"), ("char", "*b"), ("int", "c[4]"), ("t_list", "*d"), ("unsigned int", "e"), ("char", "**f"),
            ("long", "g"), ("size_t", "h"), ("struct s_p", "i"), ("int", "*j"), ("char", "k")]


def var_cases(tier):
    for n in range(2, 12):
        for rot in range(0, len(VAR_POOL), 1 if tier == "thorough" else 4):
            vs = [VAR_POOL[(rot + k) % len(VAR_POOL)] for k in range(n)]
            col = max(norm.min_col(t, 1) for t, _ in vs)
            decls = ""
            decl_lines = []
            for k, (t, nm) in enumerate(vs):
                decls += "\t" + t + norm.tabs_to(5 + len(t), col) + nm + ";\n"
                decl_lines.append(14 + k + 1)
            text = HDR_C + "int\tft_subject(int n)\n{\n" + decls + "\n\treturn (n);\n}\n"
            yield (f"vars:rot{rot}", text, n, decl_lines)


def odd_var_cases(tier):
    """One declaration of the list is of an unusual shape -- a bare sign or storage specifier (valid C: `unsigned n;`),
    a static or const local, an array, a struct variable, a declaration with an initialiser -- at the first, a middle
    or the last place: it is a variable of the function all the same and counts towards the limit."""
    odd = [("unsigned", "uu"), ("signed", "ss"), ("register", "rr"), ("static", "st"), ("static int", "cnt"), ("const int", "kk"),
           ("char", "buf[4]"), ("struct s_point", "pt"), ("int", "xx = 0"), ("long long", "*pp"), ("unsigned long", "tab[2][2]")]
    for n in range(3, 10):
        for oi, (ot, onm) in enumerate(odd):
            for place in ("first", "mid", "last"):
                vs = [VAR_POOL[(oi + k) % len(VAR_POOL)] for k in range(n)]
                pos = 0 if place == "first" else n - 1 if place == "last" else n // 2
                vs[pos] = (ot, onm)
                col = max(norm.min_col(t, 1) for t, _ in vs)
                decls = ""
                decl_lines = []
                for k, (t, nm) in enumerate(vs):
                    decls += "\t" + t + norm.tabs_to(5 + len(t), col) + nm + ";\n"
                    decl_lines.append(14 + k + 1)
                text = HDR_C + "int\tft_subject(int n)\n{\n" + decls + "\n\treturn (n);\n}\n"
                yield (f"vars:odd:{ot.replace(' ', '_')}:{place}", text, n, decl_lines)


# ---------------------------------------------------------------- worker / oracle

def judge(task):
    kind, label, ftype, text, n, where = task
    r = impl.run_text("test" + ftype, text)
    errs = [d for d in r.diags if d[0] == "Error"]
    if r.exc is not None:
        return [("exception:" + r.exc[0], str(r.exc))]
    out = []
    if kind == "col2":
        for ln, w in where:
            hit = [d for d in errs if d[1] == "LINE_TOO_LONG" and d[2] == ln]
            if w > 80 and not hit:
                out.append(("missing", f"line {ln} of a wrapped statement has width {w}: no LINE_TOO_LONG; widths {where}; errors {errs[:3]}"))
            if w <= 80 and hit:
                out.append(("spurious", f"line {ln} has width {w}: LINE_TOO_LONG reported; widths {where}"))
        if all(w <= 80 for _, w in where) and errs:
            out.append(("other-error-at-limit:" + errs[0][1], f"{errs[:3]}"))
    elif kind == "col":
        hit = [d for d in errs if d[1] == "LINE_TOO_LONG" and d[2] == where]
        others = [d for d in errs if not (d[1] == "LINE_TOO_LONG" and d[2] == where)]
        if n > 80 and not hit:
            out.append(("missing", f"width {n} line {where}: no LINE_TOO_LONG; errors {errs[:3]}"))
        if n <= 80 and hit:
            out.append(("spurious", f"width {n} line {where}: LINE_TOO_LONG reported"))
        if n <= 80 and others and "-sp" not in label and not (label.startswith("col:global-eolcomment") and "last-line" in label):
            out.append(("other-error-at-limit:" + others[0][1], f"width {n}: {others[:3]}"))
        if any(d[1] == "LINE_TOO_LONG" and d[2] != where for d in errs):
            out.append(("wrong-line", f"LINE_TOO_LONG on another line: {errs[:3]}"))
    elif kind == "lines":
        hit = [d for d in errs if d[1] == "TOO_MANY_LINES"]
        if n > 25 and not any(d[2] == where for d in hit):
            out.append(("missing" if not hit else "wrong-line", f"{n} body lines, closing brace line {where}: {hit or errs[:3]}"))
        if n <= 25 and hit:
            out.append(("spurious", f"{n} body lines: {hit}"))
        if n <= 25 and [d for d in errs if d[1] != "TOO_MANY_LINES"] and ":odd-" not in label and "odd-" not in label:
            out.append(("other-error-at-limit:" + errs[0][1], f"{errs[:3]}"))
    elif kind == "funcs":
        hit = sorted(d[2] for d in errs if d[1] == "TOO_MANY_FUNCS")
        want = sorted(where[5:])
        if hit != want:
            out.append(("missing" if len(hit) < len(want) else "spurious" if len(hit) > len(want) else "wrong-line",
                        f"{n} functions: TOO_MANY_FUNCS on lines {hit}, expected {want}"))
        if n <= 5 and errs and "before-brace" not in label and "eol" not in label:
            out.append(("other-error-at-limit:" + errs[0][1], f"{errs[:3]}"))
    elif kind == "params":
        hit = [d for d in errs if d[1] == "TOO_MANY_ARGS"]
        if n > 4 and not any(d[2] == where for d in hit):
            out.append(("missing", f"{n} parameters: {errs[:3]}"))
        if n <= 4 and hit:
            out.append(("spurious", f"{n} parameters: {hit}"))
        if n <= 4 and [d for d in errs if d[1] != "TOO_MANY_ARGS"] and "fptr-return-definition" not in label:
            # (the unnamed parameter types of the returned pointer's list get MISSING_IDENTIFIER in a definition)
            out.append(("other-error-at-limit:" + errs[0][1], f"{errs[:3]}"))
    elif kind == "vars":
        hit = sorted(d[2] for d in errs if d[1] == "TOO_MANY_VARS_FUNC")
        want = sorted(where[5:])
        if hit != want:
            out.append(("missing" if len(hit) < len(want) else "spurious" if len(hit) > len(want) else "wrong-line",
                        f"{n} variables: TOO_MANY_VARS_FUNC on lines {hit}, expected {want}"))
        if n <= 5 and errs and ":odd:" not in label:
            out.append(("other-error-at-limit:" + errs[0][1], f"{errs[:3]}"))
    return out


def all_tasks(tier):
    for label, ftype, text, ln, w in col_cases(tier):
        yield ("col", label, ftype, text, w, ln)
    for label, text, lw in wrapped_cases(tier):
        yield ("col2", label, ".c", text, max(w for _, w in lw) * 100 + min(w for _, w in lw), lw)
    for label, text, n, close_line in line_cases(tier):
        yield ("lines", label, ".c", text, n, close_line)
    for label, text, f, sig_lines in func_cases(tier):
        yield ("funcs", label, ".c", text, f, sig_lines)
    for label, text, n, ln in param_cases(tier):
        yield ("params", label, ".c", text, n, ln)
    for label, text, n, dl in list(var_cases(tier)) + list(odd_var_cases(tier)):
        yield ("vars", label, ".c", text, n, dl)


def run(tier, seed):
    st = explore.Stats()
    tasks = list(all_tasks(tier))
    res = explore.pmap(judge, tasks, chunksize=16)
    failures = []
    chains = set()
    for t, out in zip(tasks, res):
        kind, label, ftype, text, n, where = t
        chains.add(label)
        st.bump("cases:" + kind)
        for prob, detail in out:
            failures.append(Failure("C03", f"{label}:{prob}:n={n}", f"{label} n={n}: {detail}",
                                    {"task": [kind, label, ftype, text, n, where]}))
    st.runs = len(tasks)
    st.states = len(tasks)
    st.transitions = max(1, len(tasks) - len(chains))
    st.outcomes = chains
    for k in ("col", "col2", "lines", "funcs", "params", "vars"):
        if st.vacuity.get("cases:" + k, 0) == 0:
            raise HarnessError(f"no case generated for limit kind {k}")
    for t in tasks[:: max(1, len(tasks) // 4)][:4]:
        st.sample({"limit_context": t[1], "n": t[4], "subject_line": t[5],
                   "text_tail": t[3].split("\n")[12:20]})
    return CheckResult(
        st, failures,
        rule="for every (limit, context) chain the measure n runs over [L-3, L+6]; each state is a complete file run on "
             "the real pipeline; iff oracle computed by the model (independent column function); distinct = contexts",
        exhaustive=True,
        bounds={"n_range": "[L-3, L+6]", "limits": {"columns": 80, "lines": 25, "functions": 5, "params": 4, "vars": 5}},
        alphabet={"contexts": len(chains)},
        assumptions=BASE_ASSUMPTIONS + ["mc/model/lexref.py line_width (tab stops every 4 columns)"],
        distinct=len(chains),
    )


def replay(payload):
    t = payload["task"]
    t = (t[0], t[1], t[2], t[3], t[4], t[5])
    return [Failure("C03", f"{t[1]}:{p}:n={t[4]}", d, payload) for p, d in judge(t)]
