"""C08 -- reports are well-formed, ordered and identical in both output formats (DESIGN §4.8)."""
from __future__ import annotations

import itertools
import json

from .. import explore, impl, carriers
from ..common import CheckResult, BASE_ASSUMPTIONS, HarnessError
from ..findings import Failure
from ..model import header42
from . import c16


def dense_family():
    h = header42.header_text("dense.c") + "\n"
    out = []
    out.append(("dense.c", h + "int\tmain(int n)\n{\n\tn=n+1 ;  n ++;\n\treturn(n) ;\n}\n"))
    out.append(("dense.c", h + "int\tmain(void)\n{\n\treturn (0x1g + 08 + 1.5e + 1.2.3 + 12uu + '' + 0b12 + 'ab' + \"\\q\\x\");\n}\n"))
    out.append(("dense.c", h + "int\tmain(void)\n{\n\treturn (0); // café über ☃\n}\n"))
    out.append(("dense.c", h + "/* éè naïve */\nint\tmain(void)\n{\n\tft_puts(\"été ☃\");\n\treturn (0);\n}\n"))
    out.append(("dense.c", h + "int main( void ){\n  int a,b;a=1;b=2;return a+b;}\n"))
    out.append(("dense.c", h + "@ $ `\nint\tmain(void)\n{\n\treturn (0);\n}\n"))
    out.append(("dense.c", "int\tmain(void)\n{\n\treturn (0);\n}\n"))
    out.append(("dense.c", h + "int\tg_a;\nint\tg_b;\n\nint\tmain(void)\n{\n\treturn (g_a + g_b);\n}\n"))
    out.append(("dense.h", header42.header_text("dense.h") + "\n#ifndef dense_h\n#define dense_h\nint f();\n#endif\nint x;\n"))
    out.append(("dense.c", h + "int\tmain(void)\n{\n\tchar\tc;\n\n\tc = 'a\n\treturn (0);\n}\n"))
    out.append(("dense.c", h + "int\tmain(void)\n{\n\treturn (1.5e+ + 0x1e+5 + 09 + 0b2 + 1..2);\n}\n"))
    # characters that start no token as the very first character of the file (a byte-order mark above all), of a line,
    # after a tab: the BAD_LEXEME diagnostic must still carry a position inside the file
    func = "int\tmain(void)\n{\n\treturn (0);\n}\n"
    for ch in ("\ufeff", "@", "\u00e9", "\x7f"):
        out.append(("dense.c", ch + func))
        out.append(("dense.c", ch + h + func))
        out.append(("dense.c", h + ch + func))
        out.append(("dense.c", h + func + ch))
        out.append(("dense.c", h + func.replace("\treturn", "\t" + ch + "return")))
    # Notices of both origins (rule engine: a global; lexer: an unknown escape, a \\x without digits) interleaved with
    # Errors, in both source orders
    out.append(("dense.c", h + "int\tg_first;\n\nchar\t*ft_msg(void)\n{\n\treturn (\"50\\% done \\x\"); \n}\n\nint\tg_late;\n"))
    out.append(("dense.c", h + "char\t*g_s = \"a\\qb\";\nint\tg_first;\n\nint\tmain(void)\n{\n\treturn(0);\n}\n"))
    out.append(("dense.h", hh_() + "#ifndef DENSE_H\n# define DENSE_H\n\n# define MSG \"100\\%\"\n\nextern int\tg_count; \nextern char\t*g_name;\n\n#endif\n"))
    # a diagnostic with several highlights whose span holds another diagnostic (an escape notice inside an
    # unterminated string / character constant; bad digits inside a long constant)
    out.append(("dense.c", h + "char\t*g_s = \"ab\\qcd"))
    out.append(("dense.c", h + "char\t*g_s = \"ab\\qcd\n\nint\tmain(void)\n{\n\treturn ('\\q + 0789);\n}\n"))
    # line splices right after an unterminated literal / at the end of a line that is followed by an empty line, with
    # a diagnostic on the last line of the file: a line counter that runs ahead shows as a position past the file
    hh = header42.header_text("dense.h") + "\n"
    for cont in ("\\\n\n", "??/\n\n", "\\\n\\\n\n"):
        out.append(("dense.h", hh + "#ifndef DENSE_H\n# define DENSE_H\n\n# define MSG don't " + cont + "int\tft_v(int n);\n\n#endif\n\n"))
        out.append(("dense.c", h + "char\tg_c = 'a " + cont + "int\tmain(void)\n{\n\treturn (0);\n}\n\n"))
        out.append(("dense.c", h + "char\t*g_s = \"abc " + cont + "int\tmain(void)\n{\n\treturn (0); \n}"))
    # characters that some line-splitting routines take for line breaks (form feed, vertical tab, FS/GS/RS, NEL, LS, PS)
    # inside comments and strings, before an over-long line close to the end of the file
    for ch in ("\f", "\v", "\x1c", "\x1d", "\x1e", "\x85", "\u2028", "\u2029", "\r"):
        long_line = "** " + "x" * 90
        out.append(("dense.c", h + "int\tmain(void)\n{\n\treturn (0);\n}\n/*\n** a" + ch + "b" + ch + ch + "c\n" + long_line + "\n*/\n"))
        out.append(("dense.h", header42.header_text("dense.h") + "\n/* p" + ch + "q */\n#ifndef DENSE_H\n# define DENSE_H\n\n# define S \"a" + ch
                    + "b\"\n// " + "y" * 90 + "\n\n#endif\n"))
    return out


def hh_():
    return header42.header_text("dense.h") + "\n"


def check_file(task):
    """Worker: well-formedness, order and format agreement for one file."""
    fname, text = task
    r = impl.run_text(fname, text)
    out = []
    if r.exc is not None:
        return out, None          # fatal files have no report to judge
    errs = list(r.errors_obj)
    nlines = text.count("\n") + (0 if text.endswith("\n") or not text else 1)
    prev = None
    for e in errs:
        if e.name == "BAD_LEXEME":
            if not e.text.startswith("No matchable token for"):
                out.append(("text", e.name, f"text {e.text!r}"))
        elif e.name not in impl.ERROR_CATALOGUE:
            out.append(("unknown-code", e.name, f"code {e.name} is not in the catalogue"))
        elif e.text != impl.ERROR_CATALOGUE[e.name]:
            out.append(("text", e.name, f"text {e.text!r} != catalogue {impl.ERROR_CATALOGUE[e.name]!r}"))
        if e.level not in ("Error", "Notice"):
            out.append(("level", e.name, f"level {e.level!r}"))
        if not e.highlights:
            out.append(("no-position", e.name, "diagnostic without highlight"))
            continue
        h = e.highlights[0]
        if not (1 <= h.lineno <= max(nlines, 1)) or h.column < 1:
            out.append(("position-outside-file", e.name, f"({h.lineno}, {h.column}) in a file of {nlines} lines"))
        cur = (h.lineno, h.column)
        if prev is not None and cur < prev:
            out.append(("order", e.name, f"{cur} listed after {prev}"))
        prev = cur
    for colors in (False, True):
        hum = impl.format_files([r.file], "humanized", use_colors=colors)
        js = impl.format_files([r.file], "json", use_colors=colors)
        try:
            pj = c16.parse(js, True)
            doc = json.loads(js)
        except Exception as e:  # noqa: BLE001
            out.append(("json-invalid", "-", f"{type(e).__name__}: {js[:120]!r}"))
            continue
        ph = c16.parse(hum, False)
        if pj != ph:
            out.append(("formats-differ", "-", f"json {pj} vs humanized {ph}"))
        # texts too
        jt = [e["text"] for f in doc["files"] for e in f["errors"]]
        ht = [c16.DIAG.match(l).group(5) for l in c16.ANSI.sub("", hum).split("\n") if c16.DIAG.match(l)]
        if jt != ht:
            out.append(("texts-differ", "-", f"{jt[:3]} vs {ht[:3]}"))
        want = [(d[0], d[1], d[2], d[3]) for d in r.diags]
        if ph and ph[0][2] != want:
            out.append(("report-differs-from-diagnostics", "-", f"{ph[0][2][:4]} vs {want[:4]}"))
    sig = tuple(sorted({d[1] for d in r.diags}))
    return out, sig


# ---------------------------------------------------------------- comparator laws

def comparator_domain():
    from norminette.errors import Error, Highlight

    hl = [(l, c, h) for l in (1, 2) for c in (1, 2) for h in (None, "h")]
    objs = []
    for name in ("A", "B"):
        for h1 in hl:
            objs.append((name, (h1,)))
        for h1, h2 in itertools.product(hl, repeat=2):
            objs.append((name, (h1, h2)))

    def mk(o):
        name, hs = o
        return Error(name, "t", highlights=[Highlight(l, c, 1, h) for l, c, h in hs])

    return objs, mk


def printed(o):
    name, hs = o
    return (hs[0][0], hs[0][1], name)


def span_excluded(a, b):
    """No pair is excluded any more.  (Earlier rounds skipped the pairs in which the printed position of one diagnostic
    lies inside the highlight span of another, on the belief that no file produces them; an UNKNOWN_ESCAPE inside an
    unterminated string does, and the comparator then sorted on the *last* highlight: defect repaired in /repo.)"""
    return False


def comparator_task(chunk_idx):
    objs, mk = comparator_domain()
    n = len(objs)
    lo, hi = chunk_idx
    out = {"irreflexive": 0, "asymmetric": 0, "agree": 0, "transitive": 0, "pairs": 0, "triples": 0, "excluded": 0,
           "examples": []}
    insts = [mk(o) for o in objs]
    for i in range(lo, hi):
        a = insts[i]
        if a < a:
            out["irreflexive"] += 1
            out["examples"].append(("irreflexive", objs[i]))
        for j in range(n):
            b = insts[j]
            out["pairs"] += 1
            ab, ba = a < b, b < a
            if ab and ba:
                out["asymmetric"] += 1
                if len(out["examples"]) < 5:
                    out["examples"].append(("asymmetric", objs[i], objs[j]))
            if span_excluded(objs[i], objs[j]):
                out["excluded"] += 1
                continue
            pa, pb = printed(objs[i]), printed(objs[j])
            # same printed position and name: either order is fine
            if pa != pb and ab != (pa < pb):
                out["agree"] += 1
                if len(out["examples"]) < 5:
                    out["examples"].append(("order-disagrees-with-printed-position", objs[i], objs[j]))
    return out


def trans_task(chunk_idx):
    objs, mk = comparator_domain()
    insts = [mk(o) for o in objs]
    # transitivity over single-highlight diagnostics and a slice of the two-highlight ones
    idx = [k for k, o in enumerate(objs) if len(o[1]) == 1] + [k for k, o in enumerate(objs) if len(o[1]) == 2][::7]
    lo, hi = chunk_idx
    bad = 0
    n = 0
    ex = []
    for i in idx[lo:hi]:
        for j in idx:
            if not insts[i] < insts[j]:
                continue
            for k in idx:
                n += 1
                if insts[j] < insts[k] and not insts[i] < insts[k]:
                    if span_excluded(objs[i], objs[j]) or span_excluded(objs[j], objs[k]) or span_excluded(objs[i], objs[k]):
                        continue
                    bad += 1
                    if len(ex) < 3:
                        ex.append((objs[i], objs[j], objs[k]))
    return n, bad, ex, len(idx)


def run(tier, seed):
    st = explore.Stats()
    failures = []
    cs = carriers.conforming("quick", cap=200 if tier == "quick" else 1500)
    vs = carriers.violating("quick", per_op=2 if tier == "quick" else 3)
    files = [(c["fname"], c["text"]) for c in cs] + [(v["fname"], v["text"]) for v in vs] + dense_family()
    from .. import corpus
    files += list(corpus.samples())          # the sample inputs of norminette's own tests: diagnostics the model never provokes
    res = explore.pmap(check_file, files, chunksize=8)
    sigs = set()
    judged = 0
    for (fname, text), (out, sig) in zip(files, res):
        if sig is not None:
            sigs.add(sig)
            judged += 1
        for kind, code, detail in out:
            failures.append(Failure("C08", f"{kind}:{code}", f"{fname}: {detail[:300]}", {"kind": "file", "fname": fname, "text": text}))
    st.runs += len(files)
    st.bump("files_judged", judged)
    st.bump("distinct_diagnostic_sets", len(sigs))
    # one representative per outcome signature through main(): -f json vs -f humanized
    seen = {}
    for (fname, text), (out, sig) in zip(files, res):
        if sig is not None and sig not in seen:
            seen[sig] = (fname, text)
    from .. import progrun
    reps = list(seen.values())[: 60 if tier == "quick" else 400]
    rj = explore.pmap(progrun.cli_text, [(f, t, ["--no-colors", "-f", "json"]) for f, t in reps], chunksize=4)
    rh = explore.pmap(progrun.cli_text, [(f, t, ["--no-colors", "-f", "humanized"]) for f, t in reps], chunksize=4)
    for (f, t), a, b_ in zip(reps, rj, rh):
        st.runs += 2
        try:
            pa, pb = c16.parse(a["stdout"], True), c16.parse(b_["stdout"], False)
        except Exception as e:  # noqa: BLE001
            failures.append(Failure("C08", "cli:unparsable", f"{f}: {type(e).__name__}", {"kind": "file", "fname": f, "text": t}))
            continue
        if pa != pb or a["code"] != b_["code"]:
            failures.append(Failure("C08", "cli:formats-differ", f"{f}: json {pa} exit {a['code']} vs humanized {pb} exit {b_['code']}",
                                    {"kind": "file", "fname": f, "text": t}))
    # several files found through a directory: both formats, run as separate commands under different string-hash
    # seeds, must list the same files in the same order (the order is part of the report)
    import os
    import shutil
    import subprocess
    import sys
    import tempfile
    root = tempfile.mkdtemp(prefix="mcverif_c08_")
    try:
        names = ["a.c", "b.h", "zz.c", "m_file.c", "src/x.c", "src/y.h", "src/deep/k.c", "inc/q.h", "inc/r.c", "e.c"]
        for nm in names:
            os.makedirs(os.path.dirname(os.path.join(root, nm)) or root, exist_ok=True)
            base = os.path.basename(nm)
            with open(os.path.join(root, nm), "w") as f:
                if nm.endswith(".h"):
                    g = base.upper().replace(".", "_")
                    f.write(header42.header_text(base) + f"\n#ifndef {g}\n# define {g}\n\nint\tft_v(int n);\n\n#endif\n")
                else:
                    f.write(header42.header_text(base) + "\nint\tft_v(int n)\n{\n\treturn (n); \n}\n" * (1 if "x" in nm else 0)
                            or header42.header_text(base) + "\nint\tft_v(int n)\n{\n\treturn (n);\n}\n")
        orders = {}
        for hs, fmt, args in ((1, "json", ["."]), (2, "humanized", ["."]), (3, "json", []), (4, "humanized", []),
                              (5, "json", ["src", "inc"]), (6, "humanized", ["src", "inc"])):
            env = dict(os.environ, PYTHONPATH=impl.REPO, PYTHONHASHSEED=str(hs), PYTHONDONTWRITEBYTECODE="1")
            p_ = subprocess.run([sys.executable, "-m", "norminette", "--no-colors", "-f", fmt] + args, cwd=root, env=env,
                                capture_output=True, text=True, timeout=120)
            st.runs += 1
            try:
                parsed = c16.parse(p_.stdout, fmt == "json")
            except Exception as e:  # noqa: BLE001
                failures.append(Failure("C08", "multi:unparsable", f"{fmt} {args}: {type(e).__name__} {p_.stderr[-200:]}",
                                        {"kind": "multi"}))
                continue
            orders[(fmt, tuple(args))] = [(a, b_, tuple(c)) for a, b_, c in parsed]
        for args in ((".",), (), ("src", "inc")):
            a, b_ = orders.get(("json", args)), orders.get(("humanized", args))
            if a is not None and b_ is not None and a != b_:
                kind = "order" if sorted(a) == sorted(b_) else "content"
                failures.append(Failure("C08", f"multi:{kind}-differs", f"args {list(args)}: json lists {[x[0] for x in a]}, humanized "
                                                                        f"{[x[0] for x in b_]}", {"kind": "multi"}))
        st.bump("multi_file_runs", len(orders))
    finally:
        shutil.rmtree(root, ignore_errors=True)
    # comparator laws, exhaustively over the small domain
    objs, _ = comparator_domain()
    n = len(objs)
    step = max(1, n // 32)
    chunks = [(i, min(n, i + step)) for i in range(0, n, step)]
    cres = explore.pmap(comparator_task, chunks, chunksize=1)
    tot = {"irreflexive": 0, "asymmetric": 0, "agree": 0, "pairs": 0, "excluded": 0}
    for o in cres:
        for k in tot:
            tot[k] += o[k]
        for ex in o["examples"][:2]:
            law = ex[0]
            failures.append(Failure("C08", f"comparator:{law}", f"{ex[1:]}", {"kind": "cmp", "law": law, "objs": [list(map(list, x[1])) + [x[0]] for x in ex[1:]]}))
    tchunks = [(i, i + 4) for i in range(0, 80, 4)]
    tres = explore.pmap(trans_task, tchunks, chunksize=1)
    ntr = 0
    for nn, bad, ex, nidx in tres:
        ntr += nn
        for e in ex[:1]:
            failures.append(Failure("C08", "comparator:transitive", f"{e}", {"kind": "cmp", "law": "transitive", "objs": []}))
    st.bump("comparator_pairs", tot["pairs"])
    st.bump("comparator_pairs_excluded(api_only)", tot["excluded"])
    st.bump("comparator_triples", ntr)
    st.states = len(files) + n
    st.transitions = st.runs + tot["pairs"] + ntr
    st.outcomes = sigs
    if judged < 50 or tot["pairs"] < 10000:
        raise HarnessError("C08 exploration is vacuous")
    st.sample({"file": files[-3][0], "text_tail": files[-3][1].split("\n")[12:]})
    st.sample({"comparator_object": [objs[20][0], list(objs[20][1])]})
    return CheckResult(
        st, failures,
        rule="every file of the carrier sets and the diagnostic-dense family: each diagnostic well-formed, ascending "
             "(line, col) order, JSON == humanized (formatter level, with and without colours, and through main() for "
             "one representative per diagnostic set); comparator laws over all pairs and triples of a small Error domain; "
             "distinct = distinct diagnostic-code sets observed",
        exhaustive=True, bounds={"files": len(files), "comparator_objects": n},
        alphabet={"names": 2, "lines": 2, "columns": 2, "hints": 2, "highlights": "1..2"},
        assumptions=BASE_ASSUMPTIONS + ["pairs whose printed position lies strictly inside the other's multi-highlight span "
                                        "cannot come from a file and are only counted (api_only)"],
        distinct=len(sigs),
    )


def replay(payload):
    if payload["kind"] == "multi":
        res = run("quick", 0)
        return [f for f in res.failures if f.signature.startswith("multi:")]
    if payload["kind"] == "file":
        out, _ = check_file((payload["fname"], payload["text"]))
        return [Failure("C08", f"{k}:{c}", d, payload) for k, c, d in out]
    objs, _ = comparator_domain()
    res = comparator_task((0, len(objs)))
    if payload["law"] in ("irreflexive", "asymmetric") and res[payload["law"]]:
        return [Failure("C08", "comparator:" + payload["law"], "reproduced", payload)]
    if payload["law"] == "order-disagrees-with-printed-position" and res["agree"]:
        return [Failure("C08", "comparator:" + payload["law"], "reproduced", payload)]
    if payload["law"] == "transitive":
        for c in [(i, i + 4) for i in range(0, 80, 4)]:
            if trans_task(c)[1]:
                return [Failure("C08", "comparator:transitive", "reproduced", payload)]
    return []
