"""C04 -- exit status and per-file verdicts agree with the diagnostics (DESIGN §4.4, shape H)."""
from __future__ import annotations

import itertools
import os
import re
import shutil
import tempfile

from .. import explore, impl
from ..common import CheckResult, BASE_ASSUMPTIONS, HarnessError
from ..findings import Failure
from ..model import header42

CLASSES = ["clean", "notice", "erroneous", "fatal", "mixed", "mixedrev", "fataleof"]
# mixed: a Notice positioned before an Error in the same file; mixedrev: the Error first;
# fataleof: the unparsable tokens are the very last bytes of the file (no newline after them)
# what each class is *by construction* (the reference; the tool's own isolated run is checked against it)
EXPECT = {"clean": "OK", "notice": "OK", "erroneous": "Error", "mixed": "Error", "mixedrev": "Error", "fatal": "fatal",
          "fataleof": "fatal"}
FUNC = "int\tft_value(int n)\n{\n\treturn (n + 1);\n}\n"
HBODY = "#ifndef %s\n# define %s\n\nint\tft_value(int n);\n%s\n#endif\n"


def content(cls, fname):
    hdr = header42.header_text(fname) + "\n"
    if fname.endswith(".c"):
        if cls == "clean":
            return hdr + FUNC
        if cls == "notice":
            return hdr + "int\tg_counter;\n\n" + FUNC
        if cls == "erroneous":
            return hdr + FUNC.replace("return (n + 1);", "return (n + 1); ")
        if cls == "mixed":
            return hdr + "int\tg_counter;\n\n" + FUNC.replace("return (n + 1);", "return (n + 1); ")
        if cls == "mixedrev":
            return hdr + "int\tG_first;\nint\tg_counter;\n\n" + FUNC
        if cls == "fataleof":
            return hdr + FUNC + "]"
        return hdr + "int\tft_value(int n)\n{\n\treturn ((n + 1);\n}\n"
    g = fname.upper().replace(".", "_")
    if cls == "clean":
        return hdr + HBODY % (g, g, "")
    if cls == "notice":
        return hdr + HBODY % (g, g, "extern int\tg_counter;")
    if cls == "erroneous":
        return hdr + (HBODY % (g, g, "")).replace("int\tft_value(int n);", "int\tft_value(int n); ")
    if cls == "mixed":
        return hdr + (HBODY % (g, g, "extern int\tg_counter; ")).replace("int\tft_value(int n);\n", "extern int\tg_first;\n")
    if cls == "mixedrev":
        return hdr + (HBODY % (g, g, "extern int\tg_counter;")).replace("int\tft_value(int n);", "int\tft_value(int n); ")
    if cls == "fataleof":
        return hdr + HBODY % (g, g, "") + ") )"
    return hdr + (HBODY % (g, g, "")).replace("(int n);", "((int n);")


def members(cls):
    return [f"{cls}1.c", f"{cls}2.h"]


VERDICT = re.compile(r"^(.+): (OK|Error)!$")


def parse_verdicts(stdout):
    out = []
    for line in stdout.split("\n"):
        m = VERDICT.match(line)
        if m and not line.startswith(("Error: ", "Notice: ", "\t")):
            out.append((os.path.basename(m.group(1)), m.group(2)))
    return out


_iso_cache = {}


def isolated_verdict(cls, fname):
    """Reference: what the class is by construction."""
    return EXPECT[cls]


_diag_cache = {}


def isolated_diags(cls, fname):
    k = (cls, fname)
    if k not in _diag_cache:
        r = impl.run_text(fname, content(cls, fname))
        _diag_cache[k] = [(d[0], d[1], d[2], d[3]) for d in r.diags]
    return _diag_cache[k]


def real_isolated_verdict(cls, fname):
    """The verdict of the file computed in isolation by the real pipeline (must equal the class's construction)."""
    k = (cls, fname)
    if k not in _iso_cache:
        r = impl.run_text(fname, content(cls, fname))
        if r.exc is not None:
            _iso_cache[k] = "fatal" if r.exc[0] == "CParsingError" else "internal:" + r.exc[0]
        else:
            _iso_cache[k] = "Error" if any(d[0] == "Error" for d in r.diags) else "OK"
    return _iso_cache[k]


def make_tree(root, names_cls):
    for name, cls in names_cls:
        with open(os.path.join(root, name), "w") as f:
            f.write(content(cls, name))


def model(analysed, cls_of):
    """The 6-line reference model of 'verdict and exit status'."""
    verdicts = []
    for path in analysed:
        name = os.path.basename(path)
        v = isolated_verdict(cls_of[name], name)
        verdicts.append((name, "OK" if v == "OK" else "Error"))
    return verdicts


def judge(o, selected, cls_of):
    """selected: basenames selected by the arguments, in order.  Returns list of (clause, detail)."""
    probs = []
    if o["exc"] is not None:
        probs.append(("traceback:" + o["exc"][0], f"{o['exc']}"))
        return probs
    if "Traceback (most recent call last)" in o["stderr"]:
        probs.append(("traceback", o["stderr"][-200:]))
    want = model(o["analysed"], cls_of)
    got = parse_verdicts(o["stdout"])
    if got != want:
        probs.append(("verdict-lines", f"analysed {[os.path.basename(a) for a in o['analysed']]}: verdict lines {got}, "
                                       f"expected {want}"))
    # each verdict block lists exactly the diagnostics the file has when analysed alone (a path named twice is
    # analysed twice, each time with its own diagnostics)
    if got == want:
        try:
            from . import c16
            blocks = c16.parse(o["stdout"], False)
        except Exception:  # noqa: BLE001
            blocks = []
        for name, _, ds in blocks:
            if name in cls_of and isolated_verdict(cls_of[name], name) != "fatal":
                alone = isolated_diags(cls_of[name], name)
                if sorted(ds) != sorted(alone):
                    probs.append(("block-diagnostics", f"{name}: the run lists {ds[:4]} ({len(ds)}), alone it has {alone[:4]} ({len(alone)})"))
                    break
    all_ok = all(isolated_verdict(cls_of[n], n) == "OK" for n in selected)
    want_exit_zero = all_ok
    if (o["code"] == 0) != want_exit_zero:
        probs.append((f"exit={o['code']}-expected-{'0' if want_exit_zero else 'nonzero'}",
                      f"exit status {o['code']} for classes {[cls_of[n] for n in selected]}"))
    for n in selected:
        if isolated_verdict(cls_of[n], n) == "fatal" and n in [os.path.basename(a) for a in o["analysed"]]:
            if not any(n in line and line.rstrip().endswith("Error!") for line in o["stdout"].split("\n")):
                probs.append(("fatal-not-named", f"fatal file {n} has no verdict line naming it"))
    return probs


def seq_task(task):
    """Worker: one class sequence in one argument mode."""
    mode, seq = task[0], task[1]
    root = tempfile.mkdtemp(prefix="mcverif_c04_")
    try:
        cls_of = {}
        names = []
        count = {}
        for cls in seq:
            k = count.get(cls, 0)
            count[cls] = k + 1
            if mode == "args":
                name = members(cls)[k % 2]            # 3rd occurrence repeats the 1st path
            else:
                name = members(cls)[k % 2] if k < 2 else f"{cls}{k + 1}" + (".c" if k % 2 == 0 else ".h")
            cls_of[name] = cls
            names.append(name)
        make_tree(root, [(n, cls_of[n]) for n in dict.fromkeys(names)])
        if mode == "args":
            argv = [os.path.join(root, n) for n in names]
            selected = names
        elif mode == "dir":
            argv = [root]
            selected = sorted(set(names))
        elif mode == "emptydir":
            argv = [root]
            selected = []
        elif mode == "nonc":
            open(os.path.join(root, "notes.txt"), "w").write("hello\n")
            argv = [os.path.join(root, "notes.txt")]
            selected = []
        elif mode == "cwd":
            argv = []
            selected = sorted(set(names))
        o = impl.run_cli_observed(["--no-colors"] + argv, cwd=root)
        if mode in ("dir", "cwd"):
            selected = [os.path.basename(a) for a in o["analysed"]] or selected
            # every file of the directory must at least have been selected up to the first fatal one
        probs = judge(o, selected, cls_of)
        # the same run in the JSON format: the per-file status must follow the same model, the exit status too
        if not probs and o["exc"] is None and mode in ("args", "dir", "cwd") and (len(seq) <= 3 or "json" in task[2:]):
            from . import c16
            oj = impl.run_cli_observed(["--no-colors", "-f", "json"] + argv, cwd=root)
            if oj["exc"] is not None:
                probs.append(("json:traceback:" + oj["exc"][0], str(oj["exc"])))
            elif oj["code"] != o["code"]:
                probs.append((f"json:exit={oj['code']}", f"exit status {oj['code']} under -f json, {o['code']} in the default format"))
            else:
                want = model(o["analysed"], cls_of)
                fatal_seen = any(isolated_verdict(cls_of[os.path.basename(a)], os.path.basename(a)) == "fatal" for a in o["analysed"])
                try:
                    got = [(nm, stt) for nm, stt, _ in c16.parse(oj["stdout"], True)] if oj["stdout"].strip() else []
                except Exception as e:  # noqa: BLE001
                    got = None
                    if not fatal_seen:
                        probs.append(("json:unparsable", f"{type(e).__name__}: {oj['stdout'][-120:]!r}"))
                if got is not None and not fatal_seen and got != want:
                    probs.append(("json:verdicts", f"statuses under -f json {got}, expected {want}"))
        sub = None
        if task[2:] and task[2] == "sub" or probs:
            so = impl.run_cli_subprocess(["--no-colors"] + argv, cwd=root)
            sub = (so["code"], parse_verdicts(so["stdout"]), "Traceback" in so["stderr"])
            inproc = (o["code"] if o["exc"] is None else 1, parse_verdicts(o["stdout"]),
                      o["exc"] is not None and o["exc"][0] != "SystemExit")
            if sub != inproc:
                probs.append(("HARNESS-inprocess-differs", f"subprocess {sub} vs in-process {inproc}"))
        return probs, (o["code"], tuple(parse_verdicts(o["stdout"])))
    finally:
        shutil.rmtree(root, ignore_errors=True)


def run(tier, seed):
    st = explore.Stats()
    maxlen = 4
    tasks = []
    for n in range(0, maxlen + 1):
        for seq in itertools.product(CLASSES, repeat=n):
            t = ("args", seq) + (("sub",) if n <= 2 else ())
            if n > 3 and (tier == "thorough" or sum(CLASSES.index(c) * (i + 1) for i, c in enumerate(seq)) % 5 == seed % 5):
                t = t + ("json",)          # quick: a rotating fifth of the length-4 sequences also under -f json
            if n > 0:
                tasks.append(t)
        for ms in itertools.combinations_with_replacement(CLASSES, n):
            if n > 0:
                tasks.append(("dir", ms) + (("sub",) if n <= 1 else ()))
                if tier == "thorough" or n <= 2:
                    tasks.append(("cwd", ms))
    tasks += [("emptydir", (), "sub"), ("nonc", (), "sub"), ("cwd", ())]
    failures = []
    for cls in CLASSES:
        for fname in members(cls):
            got = real_isolated_verdict(cls, fname)
            if got != EXPECT[cls]:
                failures.append(Failure("C04", f"class:{cls}:alone={got}", f"{fname} is {EXPECT[cls]} by construction; analysed alone "
                                                                           f"the pipeline says {got}", {"task": ["args", [cls]]}))
    res = explore.pmap(seq_task, tasks, chunksize=4)
    for t, (probs, outcome) in zip(tasks, res):
        st.outcomes.add(outcome)
        st.bump("mode:" + t[0])
        for clause, detail in probs:
            if clause.startswith("HARNESS"):
                raise HarnessError(f"{t}: {detail}")
            failures.append(Failure("C04", f"{t[0]}:{'-'.join(t[1]) or 'none'}:{clause}",
                                    f"classes {t[1]} as {t[0]}: {detail}", {"task": [t[0], list(t[1])]}))
    st.runs = len(tasks)
    st.states = len(tasks)
    st.transitions = len(tasks)
    st.depth_hist = {n: len(CLASSES) ** n for n in range(maxlen + 1)}
    st.sample({"mode": "args", "classes": ["erroneous", "clean"], "files": ["erroneous1.c", "clean1.c"]})
    st.sample({"mode": "dir", "classes": ["fatal", "notice"]})
    return CheckResult(
        st, failures,
        rule="every sequence over {clean, notice, erroneous, fatal} of length 0..4 as explicit paths (states = argument "
             "lists, transitions = append one file), every multiset as a directory and as cwd, plus the empty selections; "
             "each run through main() in process, lengths <= 2 and every failing case also in a real subprocess; "
             "distinct = distinct (exit status, verdict list) outcomes",
        exhaustive=True, bounds={"max_sequence_length": maxlen, "classes": CLASSES},
        alphabet={"classes": len(CLASSES), "members_per_class": 2, "modes": 5},
        assumptions=BASE_ASSUMPTIONS + ["reference model: verdict of a file = what its class is by construction (checked against its isolated run); exit 0 iff all selected files OK"],
        distinct=len(st.outcomes),
    )


def replay(payload):
    mode, seq = payload["task"]
    probs, _ = seq_task((mode, tuple(seq), "sub"))
    return [Failure("C04", f"{mode}:{'-'.join(seq) or 'none'}:{c}", d, payload) for c, d in probs]
