"""C14 -- include-guard validation follows the file name (DESIGN §4.14)."""
from __future__ import annotations

import itertools

from .. import explore, impl, carriers, progrun
from ..common import CheckResult, BASE_ASSUMPTIONS, HarnessError
from ..findings import Failure
from ..model import norm, header42

REALISTIC = ["libft.h", "ft_foo.h", "get_next_line.h", "a.b.h", "x9_y.h", "_priv.h", "minishell.h"]


def names(tier):
    out = []
    n = 2 if tier == "quick" else 3
    for k in range(1, n + 1):
        for t in itertools.product("a9_.", repeat=k):
            s = "".join(t)
            if s[0] in "9." or s.endswith("."):
                continue      # a guard cannot start with a digit; hidden / dot-terminated names are not headers
            out.append(s + ".h")
    # long names: the guard is as long as a line allows (`# define ` + 71 characters = 80 columns), around and past
    # the 31 / 63 "significant characters" of old compilers
    long_names = ["n" * k + ".h" for k in (29, 30, 61, 62, 68)]
    return out + REALISTIC + long_names


def guard(name):
    return name.upper().replace(".", "_")


def bodies(tier):
    """Conforming header bodies: list of body texts (between the guard's empty line and #endif)."""
    cs = carriers.conforming("quick", ftypes=(".h",))
    out = []
    seen = set()
    for c in cs:
        lines = c["lines"]
        # strip the completion's trailing '#endif' (and the empty line before it is kept in the body)
        body = norm.render(lines[:-1])
        if body not in seen and body.strip():
            seen.add(body)
            out.append(body)
    if tier == "quick":
        out = out[:: max(1, len(out) // 12)]
    return PREPROC_BODIES + out


# conforming bodies made of what real headers hold besides declarations: nested conditionals, #undef before a #define
# (the get_next_line idiom), includes, #elif chains -- the guard logic must not be confused by other directives
_P = "int\tft_value(int n);\n\n"
PREPROC_BODIES = [
    "# undef BUFFER_SIZE\n# define BUFFER_SIZE 42\n\n" + _P,
    "# ifndef BUFFER_SIZE\n#  define BUFFER_SIZE 42\n# endif\n\n" + _P,
    "# ifdef FT_DEBUG\n#  define FT_LOG 1\n# else\n#  define FT_LOG 0\n# endif\n\n" + _P,
    "# include <unistd.h>\n# include \"other.h\"\n\n" + _P,
    "# if defined(__linux__)\n#  define FT_OS 1\n# elif defined(__APPLE__)\n#  define FT_OS 2\n# else\n#  define FT_OS 0\n# endif\n\n" + _P,
    "# define FT_TMP 1\n# undef FT_TMP\n\n" + _P,
    "# undef FT_A\n# undef FT_B\n\n" + _P,
    _P + "# ifndef FT_LATE\n#  define FT_LATE 1\n# endif\n\n",
    "# pragma once\n\n" + _P,
    "# pragma pack(1)\n# error \"unsupported\"\n\n" + _P,
]


def first_decl_block(body):
    """Split the body into (before, declaration block (with its trailing empty line), after)."""
    lines = body.split("\n")
    for i, l in enumerate(lines):
        if l and not l.startswith(("#", "//", "/*", "**", "*/")):
            j = i
            while j < len(lines) and lines[j] != "":
                j += 1
            blk = "\n".join(lines[i:j]) + "\n"
            return "\n".join(lines[:i]) + ("\n" if i else ""), blk, "\n".join(lines[j + 1:])
    return None


def variants(name, body):
    """Yield (mutation id, file name, text, expected code or None, expected line or None)."""
    g = guard(name)
    hdr = header42.header_text(name) + "\n"
    nl = 12
    ok = hdr + f"#ifndef {g}\n# define {g}\n\n" + body + "#endif\n"
    yield "G0.accept", name, ok, None, None
    for lab, tail in (("eol-block", f"#endif /* {g} */\n"), ("eol-line", f"#endif // {g}\n"), ("next-line-block", "#endif\n/* end */\n"),
                      ("next-line-line", "#endif\n// end\n"), ("after-empty-line", "#endif\n\n/* end of file */\n")):
        yield "G0.accept:comment-after-endif:" + lab, name, ok[:-len("#endif\n")] + tail, "NOPROT", None
    g1 = g[:-1] + ("X" if g[-1] != "X" else "Y")
    yield "G1.letter", name, hdr + f"#ifndef {g1}\n# define {g1}\n\n" + body + "#endif\n", "HEADER_PROT_NAME", nl + 1
    yield "G1.other-file", name, hdr + f"#ifndef OTHER_FILE_H\n# define OTHER_FILE_H\n\n" + body + "#endif\n", "HEADER_PROT_NAME", nl + 1
    low = g.lower()
    if low != g:
        yield "G2.lower", name, hdr + f"#ifndef {low}\n# define {low}\n\n" + body + "#endif\n", "HEADER_PROT_UPPER", nl + 1
        mixed = g[0] + g[1:].lower()
        if mixed not in (g, low):
            yield "G2.mixed", name, hdr + f"#ifndef {mixed}\n# define {mixed}\n\n" + body + "#endif\n", "HEADER_PROT_UPPER", nl + 1
    t = hdr + f"#ifndef {g}\n\n" + body + "#endif\n"
    yield "G3.nodef", name, t, "HEADER_PROT_NODEF", t.count("\n")
    t = ok + f"\n#ifndef {g}\n# define {g}\n#endif\n"
    yield "G4.double", name, t, "HEADER_PROT_MULT", ok.count("\n") + 2
    sp = first_decl_block(body)
    if sp is not None:
        before, blk, after = sp
        rest = before + after
        t = hdr + blk + "\n" + f"#ifndef {g}\n# define {g}\n\n" + rest + ("" if rest.endswith("\n\n") or not rest else "") + "#endif\n"
        yield "G5.before", name, t, "HEADER_PROT_ALL", nl + blk.count("\n") + 2
        t = hdr + f"#ifndef {g}\n# define {g}\n\n" + rest + "#endif\n\n" + blk
        yield "G6.after", name, t, "HEADER_PROT_ALL_AF", (hdr + f"#ifndef {g}\n# define {g}\n\n" + rest + "#endif\n\n").count("\n") + 1
        yield "G7.noguard", name, hdr + body, "HEADER_PROT_*", None
    cname = name[:-2] + ".c"
    yield "G8.c-name:accept", cname, ok.replace(header42.header_text(name), header42.header_text(cname)), "NONE", None
    yield "G8.c-name:G1", cname, hdr + f"#ifndef {g1}\n# define {g1}\n\n" + body + "#endif\n", "NONE", None
    yield "G8.c-name:G3", cname, hdr + f"#ifndef {g}\n\n" + body + "#endif\n", "NONE", None
    if sp is not None:
        yield "G8.c-name:G7", cname, hdr + body, "NONE", None


def judge(mid, fname, text, code, line):
    r = impl.run_text(fname, text)
    if r.exc is not None:
        return f"exception:{r.exc[0]}", str(r.exc)
    prot = [d for d in r.diags if d[1].startswith("HEADER_PROT")]
    errs = [d for d in r.diags if d[0] == "Error"]
    if code is None:
        if prot:
            return "spurious:" + prot[0][1], f"{prot}"
        if errs:
            return "not-error-free:" + errs[0][1], f"{errs[:3]}"
        return None
    if code == "NOPROT":
        # a comment after the closing #endif is not an instruction: no protection diagnostic (other rules may speak)
        if prot:
            return "spurious:" + prot[0][1], f"{prot}"
        return None
    if code == "NONE":
        if prot:
            return "c-file-judged:" + prot[0][1], f"{prot}"
        return None
    if code == "HEADER_PROT_*":
        if not prot or r.status != "Error":
            return "unguarded-accepted", f"status {r.status}, diagnostics {r.diags[:3]}"
        return None
    hit = [d for d in prot if d[1] == code]
    if not hit:
        return "missing", f"expected {code}; protection diagnostics {prot}"
    if not any(d[2] == line for d in hit):
        return "wrong-line", f"expected {code} on line {line}; got {hit}"
    if r.status != "Error":
        return "status-not-error", r.status
    return None


def name_task(task):
    name, bods = task
    out = []
    n = 0
    for bi, body in enumerate(bods):
        for mid, fname, text, code, line in variants(name, body):
            n += 1
            res = judge(mid, fname, text, code, line)
            if res:
                out.append((mid, bi, res[0], res[1], fname, text, code, line))
    return n, out


def run(tier, seed):
    st = explore.Stats()
    nm = names(tier)
    bods = bodies(tier)
    if len(bods) < 5:
        raise HarnessError("no header bodies")
    tasks = [(n, bods) for n in nm]
    res = explore.pmap(name_task, tasks, chunksize=1)
    failures = []
    for (name, _), (n, out) in zip(tasks, res):
        st.runs += n
        for mid, bi, prob, detail, fname, text, code, line in out:
            shape = "realistic" if name in REALISTIC else "short:" + "".join("a" if c.isalpha() else "9" if c.isdigit() else c for c in name[:-2])
            if mid == "G7.noguard":
                shape = "any"
            failures.append(Failure("C14", f"{mid}:{prob}:name={shape}", f"{fname} body#{bi} {mid}: {detail}",
                                    {"mid": mid, "fname": fname, "text": text, "code": code, "line": line}))
    # the same header reached through a symbolic link with another name
    ltasks = []
    for name in ("panel.h", "my_lib.h"):
        for mid, fname, text, code, line in variants(name, bods[-1]):
            if mid in ("G0.accept", "G1.letter", "G2.lower", "G3.nodef"):
                ltasks.append((name, mid, text))
    for (name, mid, text), out in zip(ltasks, explore.pmap(link_task, ltasks, chunksize=1)):
        st.runs += 2
        for key, detail in out:
            failures.append(Failure("C14", key, detail, {"mid": key, "fname": name, "text": text, "code": None, "line": None}))
    st.bump("symlink_runs", 2 * len(ltasks))
    st.states = len(nm) * len(bods)
    st.transitions = st.runs
    st.outcomes = set(nm)
    st.bump("names", len(nm))
    st.bump("bodies", len(bods))
    st.sample({"name": nm[3], "guard": guard(nm[3])})
    st.sample({"body": bods[len(bods) // 2].split("\n")[:8]})
    return CheckResult(
        st, failures,
        rule="every header base name over {a,9,_,.} up to the length bound plus realistic names x every conforming header "
             "body of the carrier set x {correct guard, G1-G7 mutations, the same texts under a .c name}; states = "
             "(name, body) pairs, transitions = runs of the real pipeline; distinct = names",
        exhaustive=True, bounds={"name_length": 2 if tier == "quick" else 3, "bodies": len(bods)},
        alphabet={"name_symbols": 4, "mutations": 8},
        assumptions=BASE_ASSUMPTIONS + ["GUARD(name) = name.upper().replace('.', '_') (the property's definition)"],
        distinct=len(nm),
    )


def link_task(task):
    """Worker: the header reached through a symbolic link whose own name differs from its target's (and through a
    path with directories): the guard follows the name the file was *given* on the command line."""
    import json
    import os
    import shutil
    import tempfile
    name, mid, text = task
    d = tempfile.mkdtemp(prefix="mcverif_c14_")
    out = []
    try:
        os.makedirs(os.path.join(d, "store"))
        with open(os.path.join(d, "store", "widget_target.h"), "w") as f:
            f.write(text)
        link = os.path.join(d, name)
        os.symlink(os.path.join("store", "widget_target.h"), link)
        want = sorted((x[1], x[2]) for x in impl.run_text(name, text).diags if x[1].startswith("HEADER_PROT"))
        for how, argv, cwd in (("link", [link], d), ("relative-link", [name], d)):
            o = impl.run_cli(["--no-colors", "-f", "json"] + argv, cwd=cwd)
            try:
                doc = json.loads([l for l in o["stdout"].split("\n") if l.strip()][-1])
                got = sorted((e["name"], e["highlights"][0]["lineno"]) for fl in doc["files"] for e in fl["errors"] if e["name"].startswith("HEADER_PROT"))
            except Exception:  # noqa: BLE001
                out.append((f"link:{mid}:{how}", f"unreadable output {o['stdout'][-100:]!r} exc {o['exc']}"))
                continue
            if got != want:
                out.append((f"link:{mid}:{how}", f"{name} -> store/widget_target.h: protection diagnostics {got}, by the given name {want}"))
    finally:
        shutil.rmtree(d, ignore_errors=True)
    return out


def replay(payload):
    if payload.get("mid", "").startswith("link:"):
        return [Failure("C14", k, dd, payload) for k, dd in link_task((payload["fname"], payload["mid"][5:].rsplit(":", 1)[0], payload["text"]))]
    res = judge(payload["mid"], payload["fname"], payload["text"], payload["code"], payload["line"])
    return [Failure("C14", f"{payload['mid']}:{res[0]}", res[1], payload)] if res else []
