"""C06 -- the verdict is a pure function of the file (DESIGN §4.6; shape H, explicit global state).

Every history is executed in a child forked from a *pristine* process image (norminette imported,
nothing processed), so the process-level state is exactly what the history made it.
"""
from __future__ import annotations

import itertools
import json
import os
import pickle
import subprocess
import sys

from .. import explore, impl
from ..common import CheckResult, BASE_ASSUMPTIONS, HarnessError
from ..findings import Failure
from ..model import header42

FUNC = "int\tft_value(int n)\n{\n\treturn (n + 1);\n}\n"


def _c(name, body):
    return (name, header42.header_text(name) + "\n" + body)


def pool():
    g = "POOL_H"
    hb = "#ifndef %s\n# define %s\n\nint\tft_value(int n);\n%s\n#endif\n"
    deep = "(" * 120 + "n" + ")" * 120
    lits = "int\tft_lits(void)\n{\n\treturn (0x1g + 08 + 1.5e + 1.2.3 + 12uu + '' + 0b12);\n}\n"
    files = [
        _c("clean.c", FUNC),
        _c("err.c", FUNC.replace("return (n + 1);", "return (n + 1); ")),
        _c("notice.c", "int\tg_counter;\n\n" + FUNC),
        ("pool.h", header42.header_text("pool.h") + "\n" + hb % (g, g, "")),
        ("err.h", header42.header_text("err.h") + "\n" + (hb % ("ERR_H", "ERR_H", "")).replace("(int n);", "(int n); ")),
        _c("fatal_unrec.c", "int\tft_value(int n)\n{\n\t) n;\n\treturn (n);\n}\n"),
        _c("fatal_in_if.c", "#if (1\n# define A 1\n#endif\n\n" + FUNC),
        _c("if_too_deep.c", "#if " + "(" * 150 + "1" + ")" * 150 + "\n# define A 1\n#endif\n\n" + FUNC),
        _c("deep_parens.c", "int\tft_value(int n)\n{\n\treturn (" + deep + ");\n}\n"),
        _c("bad_lexemes.c", "@" * 250 + "\n" + FUNC),
        _c("literals.c", lits),
        ("empty.c", ""),
    ]
    return files


def observe_file(name, text, reg=None):
    """diagnostics, or the fatal message, or the exception class."""
    sys.setrecursionlimit  # (deliberately NOT reset here: the limit is part of the state under test)
    from norminette.file import File
    from norminette.lexer import Lexer
    from norminette.context import Context
    import contextlib
    import io

    f = File(name, text)
    try:
        with contextlib.redirect_stdout(io.StringIO()):
            toks = list(Lexer(f))
            ctx = Context(f, toks, 0, None)
            (reg or impl.registry()).run(ctx)
    except Exception as e:  # noqa: BLE001
        return ("exc", type(e).__name__, str(e)[:120])
    try:
        # (the message text is part of a diagnostic: a catalogue entry rewritten by an earlier file shows here)
        obs = ("diags", tuple(impl.diag_tuple(e) + (e.text,) for e in f.errors), f.errors.status)
    except Exception as e:  # noqa: BLE001
        return ("exc", type(e).__name__, str(e)[:120])
    # the report of the run so far, in both formats: what it says about *this* file (last entry) is part of the
    # observation -- a formatter that carries something from one file to the next is history dependence too
    _REPORTED.append(f)
    try:
        from . import c16
        last_json = c16.parse(impl.format_files(_REPORTED, "json"), True)[-1]
        last_human = c16.parse(impl.format_files(_REPORTED, "humanized"), False)[-1]
        return obs + ((last_json[1], tuple(last_json[2])), (last_human[1], tuple(last_human[2])))
    except Exception as e:  # noqa: BLE001
        return obs + (("report-exc", type(e).__name__, str(e)[:80]),)


_REPORTED = []      # files analysed to a verdict by this process (a history runs in its own forked child)


def global_state():
    """Canonical snapshot of everything outside a Context that survives a file (generic walk)."""
    import norminette.registry as nreg
    from norminette.rules import Rule, Primary, Check

    out = [("recursionlimit", sys.getrecursionlimit())]
    for mname in sorted(m for m in sys.modules if m == "norminette" or m.startswith("norminette.")):
        mod = sys.modules[mname]
        if mod is None:
            continue
        for k, v in sorted(vars(mod).items()):
            if k.startswith("__"):
                continue
            if isinstance(v, (list, dict, set, tuple)) and not k.isupper() or isinstance(v, (list, dict, set)):
                try:
                    out.append((mname + "." + k, repr(_plain(v))[:2000]))
                except Exception:  # noqa: BLE001
                    pass

    def subclasses(c):
        for s in c.__subclasses__():
            yield s
            yield from subclasses(s)

    seen = set()
    for base in (Rule, Primary, Check):
        for cls in subclasses(base):
            if cls in seen:
                continue
            seen.add(cls)
            for k, v in sorted(vars(cls).items()):
                if k.startswith("__") or callable(v) or isinstance(v, (classmethod, staticmethod, property)):
                    continue
                # Rule.__new__ writes cls.context and cls.name = cls.__name__ on *every* instantiation, and a rule is only
                # ever used through an instance made for the current file (Registry.run_rules): both are written before
                # they can be read, so "has this rule run before" is not observable state.  A name that is not the class
                # name would be, and is kept.
                if k == "context" or (k == "name" and v == cls.__name__):
                    continue
                out.append((cls.__name__ + "." + k, repr(_plain(v))[:500]))
    # mutable class attributes of every other class of the package (a list declared in a class body is shared by all
    # its instances, hence by all files of a run)
    import inspect
    for mname in sorted(m for m in sys.modules if m == "norminette" or m.startswith("norminette.")):
        mod = sys.modules[mname]
        if mod is None:
            continue
        for cname, cls in sorted((k, v) for k, v in vars(mod).items() if inspect.isclass(v) and v.__module__ == mname):
            if cls in seen:
                continue
            for k, v in sorted(vars(cls).items()):
                if not k.startswith("__") and isinstance(v, (list, dict, set)):
                    out.append((f"{mname}.{cname}.{k}", repr(_plain(v))[:2000]))
    # mutable default arguments of functions and methods (a shared `macros=[]` survives a file just like a global)
    for mname in sorted(m for m in sys.modules if m == "norminette" or m.startswith("norminette.")):
        mod = sys.modules[mname]
        if mod is None:
            continue
        objs = [(k, v) for k, v in vars(mod).items() if inspect.isfunction(v) and v.__module__ == mname]
        for cname, cls in [(k, v) for k, v in vars(mod).items() if inspect.isclass(v) and v.__module__ == mname]:
            objs += [(cname + "." + k, v) for k, v in vars(cls).items() if inspect.isfunction(v)]
        for name, fn in sorted(objs, key=lambda kv: kv[0]):
            for d in (fn.__defaults__ or ()) + tuple((fn.__kwdefaults__ or {}).values()):
                if isinstance(d, (list, dict, set)):
                    out.append((f"{mname}.{name}.default", repr(_plain(d))[:500]))
    out.append(("Rule.context", "set" if "context" in vars(Rule) else "unset"))
    out.append(("primaries", tuple(p.__name__ for p in nreg.rules.primaries)))
    reg = impl.registry()
    out.append(("dependencies", tuple((k, tuple(c.__name__ for c in v)) for k, v in sorted(reg.dependencies.items()))))
    return tuple(out)


def _plain(v):
    if isinstance(v, dict):
        return {repr(k): _plain(x) for k, x in sorted(v.items(), key=lambda kv: repr(kv[0]))}
    if isinstance(v, (list, tuple)):
        return [_plain(x) for x in v]
    if isinstance(v, set):
        return sorted(repr(x) for x in v)
    if isinstance(v, (int, str, float, bool)) or v is None:
        return v
    return type(v).__name__


def in_pristine_child(fn, *args):
    """Run fn(*args) in a forked child of this (pristine) process; return its pickled result."""
    r, w = os.pipe()
    pid = os.fork()
    if pid == 0:
        try:
            os.close(r)
            try:
                res = ("ok", fn(*args))
            except BaseException as e:  # noqa: BLE001
                res = ("err", f"{type(e).__name__}: {e}")
            with os.fdopen(w, "wb") as f:
                pickle.dump(res, f)
        finally:
            os._exit(0)
    os.close(w)
    with os.fdopen(r, "rb") as f:
        data = f.read()
    os.waitpid(pid, 0)
    if not data:
        return ("err", "child died")
    return pickle.loads(data)


def pool_ext():
    """The pool followed by the sample inputs of norminette's own tests (indices >= len(pool()) are samples): the
    samples serve as additional *polluters* -- one-file histories whose global state is compared with the known ones."""
    from .. import corpus
    return pool() + list(corpus.samples())


def _run_history(hist, fresh_registry_between, probe=False):
    files = pool_ext() if any(i >= len(pool()) for i in hist) else pool()
    import hashlib
    obs = []
    states = []
    for i in hist:
        name, text = files[i]
        if fresh_registry_between:
            impl.fresh_registry()
        obs.append(observe_file(name, text))
        states.append(hashlib.md5(repr(global_state()).encode()).hexdigest()[:12])
    if probe:
        # a sensitive victim corpus run from the state the history left behind (sources first, headers last,
        # so that a header of the corpus itself cannot mask what an earlier header of the history did)
        # every victim is observed in its own child forked from the state the history left behind, so that one
        # victim (e.g. a guarded header of the corpus) cannot pollute -- and thereby mask -- the next
        out = []
        for n, t in probe_corpus():
            r = in_pristine_child(_observe_digest, n, t)
            out.append(r[1] if r[0] == "ok" else "child-error")
        return out
    return obs, states


def _observe_digest(n, t):
    import hashlib
    return hashlib.md5(repr(observe_file(n, t)).encode()).hexdigest()[:10]


_probe = None


def probe_corpus():
    global _probe
    if _probe is None:
        from .. import carriers
        from . import c08, diffcommon
        files = [(v["fname"], v["text"]) for v in carriers.violating("quick", per_op=1)]
        files += [(c["fname"], c["text"]) for c in carriers.conforming("quick", cap=40)]
        files += [(e["fname"], e["text"]) for e in diffcommon.enriched()] + c08.dense_family()
        from .. import corpus
        files += list(corpus.samples())      # sample inputs of norminette's own tests (constructs outside the model)
        h = header42.header_text("spin.c") + "\n"
        files.append(("spin.c", h + "void\tft_wait(int *flag)\n{\n\twhile (*flag) /* wait */\n\t\t;\n}\n"))
        files.append(("decl.c", h + "static int /* c */\tg_x;\n\nint\tmain(void)\n{\n\tint\t// c\n\t\ti;\n\n\treturn (0);\n}\n"))
        # guard victims: for every header name used in the pool, the guard mutations of C14 (a guard without its
        # #define, a wrong symbol) -- sensitive to macro state left behind by an earlier header
        for hn in ("pool.h", "err.h", "test.h", "rich.h"):
            g = hn.upper().replace(".", "_")
            hh = header42.header_text(hn) + "\n"
            files.append((hn, hh + f"#ifndef {g}\n\nint\tft_value(int n);\n\n#endif\n"))
            files.append((hn, hh + f"#ifndef {g}X\n# define {g}X\n\nint\tft_value(int n);\n\n#endif\n"))
            files.append((hn, hh + f"#ifndef {g}\n# define {g}\n\n# include <unistd.h>\n\nint\tft_value(int n);\n\n#endif\n"))
        # whitespace-sensitivity victims: a comment / a tab / two blanks at every token boundary of a small function
        base = "int\tft_probe(int n, char *p)\n{\n\tint\ti;\n\n\ti = 0;\n\twhile (p[i] && i < n)\n\t\ti++;\n\treturn (i);\n}\n"
        toks, _, _ = impl.lex(base, "probe.c")
        from ..model import lexref
        al = lexref.align(base, toks, set())
        for k, (a, b_) in enumerate(al["spans"]):
            for ins in ("/* c */", "\t", "  "):
                files.append((f"probe{k}.c", h.replace("spin.c", f"probe{k}.c") + base[:a] + ins + base[a:]))
        files.sort(key=lambda f: (f[0].endswith(".h") and "#ifndef" in f[1] and "# define" in f[1],))
        _probe = files
    return _probe


def probe_task(hist):
    return in_pristine_child(_run_history, hist, False, True)


def history_task(task):
    """Worker (stays pristine itself): run one history in a forked child."""
    hist, fresh = task
    return in_pristine_child(_run_history, hist, fresh)


def _initial_state():
    import hashlib
    return hashlib.md5(repr(global_state()).encode()).hexdigest()[:12]


CHILD = r"""
import os, sys, json
order = json.loads(sys.argv[1])
repo = sys.argv[2]
sys.path.insert(0, repo)
sys.path.insert(0, sys.argv[3])
rules_dir = os.path.realpath(os.path.join(repo, "norminette", "rules"))
_orig = os.listdir
def listdir(path="."):
    res = _orig(path)
    if os.path.realpath(path) == rules_dir:
        names = sorted(res)
        kind, k = order
        if kind == "sorted": return names
        if kind == "reverse": return names[::-1]
        if kind == "rot": return names[k:] + names[:k]
        if kind == "swap":
            names[k], names[k + 1] = names[k + 1], names[k]; return names
        if kind == "shuffle":
            import random; random.Random(k).shuffle(names); return names
    return res
os.listdir = listdir
from mc import impl
from mc.props import c06
import norminette.registry as nreg
reg = impl.registry()
out = {"n": len(sorted(_orig(rules_dir))),
       "primaries": [p.__name__ for p in nreg.rules.primaries],
       "deps": {k: [c.__name__ for c in v] for k, v in sorted(reg.dependencies.items())},
       "ties": c06.tie_classes(),
       "obs": [repr(c06.observe_file(n, t)) for n, t in c06.corpus()]}
print(json.dumps(out))
"""


def tie_classes():
    import norminette.registry as nreg
    import collections
    reg = impl.registry()
    pr = collections.Counter(p.priority for p in nreg.rules.primaries)
    ties = [f"priority {k} x{v}" for k, v in pr.items() if v > 1]
    for key, lst in reg.dependencies.items():
        c = collections.Counter(x.__name__ for x in lst)
        ties += [f"{key}:{k} x{v}" for k, v in c.items() if v > 1]
    return ties


def corpus():
    """Files for the listing-order comparison: the pool plus a few model-generated carriers."""
    files = [f for f in pool() if f[0] not in ("if_too_deep.c", "bad_lexemes.c")]
    from ..model import norm
    b = norm.Bounds(5, 5, 14, 3, 2, 2, 2, True)
    for ftype, ids in ((".c", ("inc:sys", "empty", "glob:sint", "empty", "proto:int", "empty", "fsig:int", "decl:int", "empty",
                                "if:cmp{", "s:call", "}", "else1:assign", "s:return", "fend")),
                       (".h", ("inc:sys", "empty", "def:num", "empty", "tb:struct", "empty", "tb:enum", "empty", "proto:int", "empty")),
                       (".c", ("def:num", "empty", "fsig:svoid", "while:and{", "s:idxassign", "s:break", "}", "fend", "empty",
                               "cmt:multi", "fsig:charp", "s:return", "fend"))):
        rp = norm.replay(ftype, ids, b, "carrier" + ftype)
        text = norm.render(rp.lines + norm.completion(rp.st))
        files.append(("carrier" + ftype, text))
        files.append(("carrier_bad" + ftype, text.replace(";\n", "; \n", 1).replace("\t", "    ", 1)))
    return files


def order_task(order):
    root = os.path.dirname(os.path.dirname(os.path.dirname(os.path.abspath(__file__))))
    env = dict(os.environ)
    env["PYTHONHASHSEED"] = "0"
    env["PYTHONDONTWRITEBYTECODE"] = "1"
    p = subprocess.run([sys.executable, "-c", CHILD, json.dumps(order), impl.REPO, root], capture_output=True,
                       text=True, env=env, timeout=300)
    if p.returncode != 0:
        return {"error": p.stderr[-400:]}
    return json.loads(p.stdout.strip().split("\n")[-1])


def run(tier, seed):
    st = explore.Stats()
    failures = []
    files = pool()
    nf = len(files)
    # the checking process itself must be pristine: nothing processed so far
    init = in_pristine_child(_initial_state)
    if init[0] != "ok":
        raise HarnessError(f"cannot snapshot the initial state: {init}")
    # ---- baselines: each pool file alone in a pristine child; a real fresh interpreter for validation
    base = explore.pmap(history_task, [((i,), False) for i in range(nf)], chunksize=1)
    baseline = {}
    for i, b in enumerate(base):
        if b[0] != "ok":
            raise HarnessError(f"baseline for {files[i][0]} failed: {b}")
        baseline[i] = b[1][0][0]
    probe = ("import sys,json;sys.path.insert(0,%r);sys.path.insert(0,%r);from mc.props import c06;"
             "f=c06.pool()[int(sys.argv[1])];print(repr(c06.observe_file(*f)))")
    root = os.path.dirname(os.path.dirname(os.path.dirname(os.path.abspath(__file__))))
    for i in (0, 1, 5, 6, 8):
        p = subprocess.run([sys.executable, "-c", probe % (impl.REPO, root), str(i)], capture_output=True, text=True,
                           env=dict(os.environ, PYTHONHASHSEED="0", PYTHONDONTWRITEBYTECODE="1"))
        if p.stdout.strip().split("\n")[-1] != repr(baseline[i]):
            raise HarnessError(f"forked baseline differs from a fresh interpreter for {files[i][0]}: "
                               f"{p.stdout[-200:]} {p.stderr[-200:]} vs {baseline[i]!r}")
    st.runs += nf + 5
    # ---- BFS over histories with dedup on the global state, to closure
    seen = {init[1]: ()}
    frontier = [()]
    depth = 0
    maxdepth = 6
    while frontier and depth < maxdepth:
        depth += 1
        cand = [h + (i,) for h in frontier for i in range(nf)]
        res = explore.pmap(history_task, [(h, False) for h in cand], chunksize=2)
        st.runs += len(cand)
        st.transitions += len(cand)
        nxt = []
        for h, r in zip(cand, res):
            if r[0] != "ok":
                raise HarnessError(f"history {h}: {r}")
            obs, states = r[1]
            judge_history(h, obs, baseline, files, failures, "shared-registry", states, init[1])
            g = states[-1]
            if g not in seen:
                seen[g] = h
                nxt.append(h)
            else:
                st.merges += 1
        st.depth_hist[depth] = len(nxt)
        frontier = nxt
    if frontier:
        st.caps.append(f"global-state BFS stopped at depth {maxdepth} with {len(frontier)} open states")
    st.states = len(seen)
    st.bump("distinct_global_states", len(seen))
    # ---- the sample inputs as polluters: each alone as a one-file history; a global state not seen so far joins the
    # set of states the victim corpus is run from
    ext = pool_ext()
    shist = [(i,) for i in range(nf, len(ext))]
    sres = explore.pmap(history_task, [(h, False) for h in shist], chunksize=2)
    new_states = 0
    for h, r in zip(shist, sres):
        st.runs += 1
        st.transitions += 1
        if r[0] != "ok":
            raise HarnessError(f"sample history {ext[h[0]][0]}: {r}")
        g = r[1][1][-1]
        if g not in seen:
            seen[g] = h
            new_states += 1
    st.bump("sample_polluters", len(shist))
    st.bump("global_states_first_reached_by_a_sample", new_states)
    files = ext
    # ---- a sensitive victim corpus from every distinct global state (DESIGN §4.6 'start from non-initial states')
    reps = list(seen.values())
    pres = explore.pmap(probe_task, reps, chunksize=1)
    names = [n for n, _ in probe_corpus()]
    base_probe = None
    for h, r in zip(reps, pres):
        if r[0] != "ok":
            raise HarnessError(f"probe after {h}: {r}")
        if h == ():
            base_probe = r[1]
    st.runs += len(reps) * len(names)
    st.transitions += len(reps) * len(names)
    st.bump("probe_corpus_files", len(names))
    for h, r in zip(reps, pres):
        if h == ():
            continue
        diff = [names[i] for i, (a, b_) in enumerate(zip(r[1], base_probe)) if a != b_]
        if diff:
            culprit = files[h[-1]][0]
            failures.append(Failure("C06", f"probe:{culprit}->{diff[0]}",
                                    f"after history {[files[i][0] for i in h]} the diagnostics of {len(diff)} corpus files differ "
                                    f"from a pristine process (first: {diff[0]})", {"kind": "probe", "hist": list(h)}))
    # ---- un-merged: all histories of length <= 2 (quick) / 3 (thorough); twice in a row; fresh Registry between files
    L = 2 if tier == "quick" else 3
    hs = [h for n in range(2, L + 1) for h in itertools.product(range(nf), repeat=n)]
    res = explore.pmap(history_task, [(h, False) for h in hs], chunksize=4)
    for h, r in zip(hs, res):
        if r[0] != "ok":
            raise HarnessError(f"history {h}: {r}")
        judge_history(h, r[1][0], baseline, files, failures, "shared-registry", r[1][1], init[1])
    st.runs += len(hs)
    st.transitions += len(hs)
    st.bump("unmerged_histories", len(hs))
    hs2 = [h for h in itertools.product(range(nf), repeat=2)]
    res = explore.pmap(history_task, [(h, True) for h in hs2], chunksize=4)
    for h, r in zip(hs2, res):
        if r[0] != "ok":
            raise HarnessError(f"history {h}: {r}")
        judge_history(h, r[1][0], baseline, files, failures, "fresh-registry", r[1][1], init[1])
    st.runs += len(hs2)
    # ---- listing order of the rules directory
    first = order_task(("sorted", 0))
    if "error" in first:
        raise HarnessError(f"listing-order child failed: {first['error']}")
    n = first["n"]
    orders = [("reverse", 0)] + [("rot", k) for k in range(1, n)] + [("swap", k) for k in range(n - 1)] + \
             [("shuffle", seed * 2 + 1), ("shuffle", seed * 2 + 2)]
    if tier == "quick":
        orders = [("reverse", 0)] + [("rot", k) for k in range(1, n, 7)] + [("swap", k) for k in range(0, n - 1, 5)] + \
                 [("shuffle", seed * 2 + 1), ("shuffle", seed * 2 + 2)]
    res = explore.pmap(order_task, orders, chunksize=1)
    st.runs += len(orders) + 1
    st.transitions += len(orders)
    st.bump("listing_orders", len(orders) + 1)
    if first["ties"]:
        failures.append(Failure("C06", "listing:ties", f"tie classes that let listing order show through: {first['ties']}",
                                {"kind": "order", "order": ["sorted", 0]}))
    for o, r in zip(orders, res):
        if "error" in r:
            raise HarnessError(f"listing-order child {o} failed: {r['error']}")
        for key in ("primaries", "deps", "obs"):
            if r[key] != first[key]:
                idx = next((i for i, (a, b) in enumerate(zip(r[key], first[key])) if a != b), 0) if key != "deps" else 0
                failures.append(Failure("C06", f"listing:{key}", f"listing order {o}: {key} differs from the sorted baseline "
                                                                 f"(first difference at index {idx})",
                                        {"kind": "order", "order": list(o)}))
                break
    st.outcomes = set(repr(b) for b in baseline.values())
    st.sample({"history": [files[i][0] for i in (6, 8)], "note": "polluter then victim"})
    st.sample({"listing_order": list(orders[0])})
    return CheckResult(
        st, failures,
        rule="BFS over histories of processed files with deduplication on a generic snapshot of the process-level state "
             "(to closure), un-merged histories of length <= 2/3, fresh-Registry variant, and permutations of the rules "
             "directory listing; every history runs in a child forked from a pristine image; invariant: observation of a "
             "file == its observation alone in a pristine process; distinct = distinct baseline observations",
        exhaustive=not st.caps, bounds={"pool": nf, "unmerged_length": L, "bfs_max_depth": maxdepth},
        alphabet={"pool_files": nf, "listing_orders": len(orders) + 1},
        assumptions=BASE_ASSUMPTIONS + ["fork() copies the pristine interpreter state faithfully (validated against fresh "
                                        "interpreters for 5 pool files)"],
        distinct=len(st.outcomes),
    )


def judge_history(h, obs, baseline, files, failures, mode, states=None, init=None):
    for pos, (i, o) in enumerate(zip(h, obs)):
        if o != baseline[i]:
            polluters = [files[j][0] for j in h[:pos]]
            # the polluter is the last earlier file that changed the process-level state
            culprit = "none"
            if states is not None:
                prev = init
                for j in range(pos):
                    if states[j] != prev:
                        culprit = files[h[j]][0]
                    prev = states[j]
            else:
                culprit = "+".join(polluters[-2:]) or "none"
            failures.append(Failure(
                "C06", f"history:{mode}:{culprit}->{files[i][0]}",
                f"{files[i][0]} after {polluters}: {str(o)[:160]} instead of {str(baseline[i])[:160]}",
                {"kind": "history", "hist": list(h), "mode": mode}))
            break


def replay(payload):
    files = pool()
    if payload["kind"] == "probe":
        a = in_pristine_child(_run_history, (), False, True)
        b_ = in_pristine_child(_run_history, tuple(payload["hist"]), False, True)
        return [Failure("C06", "probe", "differs", payload)] if a != b_ else []
    if payload["kind"] == "history":
        h = tuple(payload["hist"])
        fresh = payload["mode"] == "fresh-registry"
        base = {i: in_pristine_child(_run_history, (i,), False)[1][0][0] for i in set(h)}
        r = in_pristine_child(_run_history, h, fresh)
        out = []
        judge_history(h, r[1][0], base, files, out, payload["mode"])
        return out
    first = order_task(("sorted", 0))
    r = order_task(tuple(payload["order"]))
    for key in ("primaries", "deps", "obs"):
        if r.get(key) != first.get(key):
            return [Failure("C06", f"listing:{key}", "differs", payload)]
    return [Failure("C06", "listing:ties", str(first["ties"]), payload)] if first.get("ties") else []
