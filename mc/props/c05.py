"""C05 -- every input gets an answer: no hang, no internal error (DESIGN §4.5; shapes T and S + deviation bound)."""
from __future__ import annotations

import itertools

from .. import explore, impl, carriers, progrun
from ..common import CheckResult, BASE_ASSUMPTIONS, HarnessError
from ..findings import Failure
from ..model import lexref
from . import lexcommon

TOKEN_ALPHABET = ["(", ")", "{", "}", "[", "]", ";", ",", "=", "*", "#", ":", "?", '"', "'", "\\", "ident", "42", "if", "else",
                  "while", "return", "int", "struct", "elif", "endif", "NULL"]
RUN_CLASSES = {"unmatched": "@", "hash": "#", "splice": "\\\n", "dquote": '"', "squote": "'", "lparen": "(", "backslash": "\\",
               "star": "*", "lbrace": "{", "digit": "1", "zero": "0", "nine": "9", "letter": "a", "dot": ".", "exp": "e", "hexx": "x",
               "space": " ", "tab": "\t", "newline": "\n", "semicolon": ";", "slash": "/", "minus": "-", "plus": "+", "question": "?",
               "percent": "%", "less": "<", "colon": ":", "amp": "&", "digits": "12", "float": "1.", "hexdigits": "0x1", "fe": "1e"}
WALL_LIMIT = 20.0      # seconds for one string of <= 15 000 characters (normal: milliseconds)
RUN_LENGTHS = [1, 2, 3, 4, 5, 6, 7, 8, 9, 10, 99, 100, 101, 999, 1000, 1001, 5000]


def fuel_for(text, ntok=0):
    return 400 * (ntok + len(text) + 50)


# ---------------------------------------------------------------- tokenizer totality

def lex_total(text):
    """None, or (signature, detail)."""
    impl.install_fuel()
    impl._fuel.left = fuel_for(text)
    try:
        toks, errs, exc = impl.lex(text)
    finally:
        impl._fuel.left = None
    if exc is not None:
        return f"lexer:{exc[0]}", f"{exc[0]}: {exc[1][:80]}"
    from norminette.lexer.dictionary import keywords, operators, brackets
    published = set(keywords.values()) | set(operators.values()) | set(brackets.values()) | \
        {"SPACE", "TAB", "NEWLINE", "IDENTIFIER", "CONSTANT", "STRING", "CHAR_CONST", "COMMENT", "MULT_COMMENT"}
    for t in toks:
        if t.type not in published:
            return f"lexer:unknown-token-type:{t.type}", str(t)
        if not (isinstance(t.pos, tuple) and len(t.pos) == 2 and t.pos[0] >= 1 and t.pos[1] >= 1):
            return "lexer:bad-position", str(t)
    try:
        for e in errs:
            if not e.name or not e.text or e.level not in ("Error", "Notice") or not e.highlights:
                return "lexer:ill-formed-diagnostic", repr(e)
    except Exception as ex:  # noqa: BLE001
        return f"lexer:diagnostics-unsortable:{type(ex).__name__}", str(ex)
    return None


def _lex_total_text(text):
    return lex_total(text)


LINE_RUNS = ["/* " + "*" * 74 + " */", "// c", "/* c */", "#define A 1", "# include <a.h>", "int\tg_a;", "int\tf(void);", "}", "{", "(", ")", ";",
             "", "\t", "\tif (a)", "\ta = 1;", "\"s\"", "#", "#if 1", "typedef int\tt_a;", "struct s_a", "a", "\\"]
LINE_RUN_LENGTHS = (30, 100, 300)


def line_run_family(lengths=LINE_RUN_LENGTHS):
    """The same line n times (n = 30, 100, 300), alone and in front of a function: polynomial blow-ups in a rule (a
    regular expression over everything collected so far, a look-behind over the whole history) show as a time-out."""
    func = "int\tmain(void)\n{\n\treturn (0);\n}\n"
    for li, line in enumerate(LINE_RUNS):
        for n in lengths:
            yield (f"linerun:{li}^{n}:alone", (line + "\n") * n)
            yield (f"linerun:{li}^{n}:before-function", (line + "\n") * n + func)


def _pipeline_total_text(task):
    fname, text = task
    # no fuel counter here: quadratic work on 300 repeated lines is slow but legitimate; the wall-clock deadline of
    # the batch decides (the linear fuel bound is for single statements and short files)
    r = impl.run_text(fname, text)
    if r.exc is None or r.exc[0] == "CParsingError":
        return None
    return f"{r.exc[0]}@{r.exc[2]}", f"{r.exc[0]}: {r.exc[1][:100]} (in {r.exc[2]})"


def trie_task(task):
    alpha_name, prefix, extra = task
    alpha = lexcommon.ALPHABETS[alpha_name]
    n = 0
    fails = {}
    for s in lexcommon.subtree(alpha, prefix, extra):
        n += 1
        r = lex_total(s)
        if r:
            key = (r[0], _string_class(s))
            lst = fails.setdefault(key, [])
            if len(lst) < 2:
                lst.append((s, r[1]))
    return n, fails


def _string_class(s):
    """Input-side class of a short string: which construct is left open at the end of input."""
    if "\\\n" in s or "??/\n" in s:
        tail = "splice"
    else:
        tail = "nosplice"
    return tail + (":ends-with-backslash" if s.endswith("\\") or s.endswith("??/") else "")


OPEN_FAMILIES = {"squote-then-text": ("'", "a", ""), "dquote-then-text": ('"', "a", ""), "string-of-splices": ('"', "\\\n", '"'),
                 "comment-of-splices": ("// ", "\\\n", "\n"), "blockcomment-of-splices": ("/* ", "\\\n", " */"),
                 "char-of-splices": ("'", "\\\n", "a'"), "ident-splices": ("a", "\\\n", "b")}


def run_family():
    for cname, (a, c, z) in OPEN_FAMILIES.items():
        for n in RUN_LENGTHS:
            yield (f"run:{cname}^{n}", a + c * n + z)
    for cname, c in RUN_CLASSES.items():
        for n in RUN_LENGTHS:
            yield (f"run:{cname}^{n}", c * n)
            yield (f"run:x{cname}^{n}y", "x" + c * n + "y")
            yield (f"run:{cname}^{n}+nl", c * n + "\n")


# ---------------------------------------------------------------- pipeline totality

def pipeline_total(fname, text, via_main=False):
    """None, or (signature, detail).  The run must end in a verdict or in CParsingError."""
    ntok = text.count(" ") + text.count("\n") + len(text) // 3
    r = impl.run_text(fname, text, fuel=fuel_for(text, ntok))
    if r.exc is None:
        # "ends with a verdict for the file": the verdict has to be printable -- both report formats are produced
        for fmt in ("humanized", "json"):
            try:
                impl.format_files([r.file], fmt)
            except Exception as e:  # noqa: BLE001
                info = impl._exc_info(e)
                return f"report:{info[0]}@{info[2]}", f"the {fmt} report cannot be produced: {info[0]}: {info[1][:100]} (in {info[2]})"
        return None
    if r.exc[0] == "CParsingError":
        return None
    return f"{r.exc[0]}@{r.exc[2]}", f"{r.exc[0]}: {r.exc[1][:100]} (in {r.exc[2]})"


def render_tokens(toks):
    return "".join(lexref.token_text(t) if not isinstance(t, str) else t for t in toks)


def alpha_text(a):
    return {"ident": "zz", "42": "42"}.get(a, a)


def seed_task(task):
    """Worker: all single-token edits (and prefix o edit pairs) of one seed file."""
    fname, text, mode, stride, part, nparts = task
    toks, errs, exc = impl.lex(text, fname)
    if toks is None:
        return 0, {}
    # the 42 header is not edited (11 comment tokens): start after it
    start = next((i for i, t in enumerate(toks) if t.pos[0] >= 12), 0)
    if mode.endswith("0"):
        start = 0                 # sample files of the corpus carry no 42 header
        mode = mode[:-1]
    out = {}
    n = 0

    def judge(newtext, kind, i):
        nonlocal n
        n += 1
        r = pipeline_total(fname, newtext)
        if r:
            prev = [t.type for t in toks[max(0, i - 2):i] if not isinstance(t, str)]
            key = (r[0],)
            if key not in out or len(newtext) < len(out[key][0]):
                out[key] = (newtext, f"{r[1]}; {kind} after {'.'.join(prev[-2:])}")

    if mode == "lineprefix":
        ls = text.split("\n")
        for k in range(1 + part, len(ls), nparts):
            base = "\n".join(ls[:k])
            judge(base, "line-prefix", 0)
            judge(base + "\n", "line-prefix+nl", 0)
        return n, out
    if mode == "prefix":
        for i in range(start + part, len(toks) + 1, nparts):
            base = render_tokens(toks[:i])
            judge(base, "prefix", i)
            if not base.endswith("\n"):
                judge(base + "\n", "prefix+nl", i)
            else:
                judge(base + " ", "prefix+blank", i)       # the file ends in a line made of one blank
                judge(base + "\t\t", "prefix+tabs", i)
        return n, out
    nonblank = [i for i in range(start, len(toks)) if toks[i].type not in ("SPACE", "TAB")]
    idx = nonblank[::stride]
    # the argument of a preprocessor directive is always an edit position, whatever the stride (one token decides
    # what the whole line means to the guard / macro bookkeeping)
    words = ("ifndef", "ifdef", "define", "undef", "include", "elif", "pragma", "error")
    for a, b in zip(nonblank, nonblank[1:]):
        if (toks[a].type == "IDENTIFIER" and toks[a].value in words) or toks[a].type == "IF":
            if b not in idx:
                idx.append(b)
    idx.sort()
    full_idx = idx
    idx = idx[part::nparts]
    for i in idx:
        judge(render_tokens(toks[:i] + toks[i + 1:]), "delete", i)
        if i + 1 < len(toks):
            judge(render_tokens(toks[:i] + [toks[i + 1], toks[i]] + toks[i + 2:]), "swap", i)
        for a in TOKEN_ALPHABET:
            judge(render_tokens(toks[:i] + [alpha_text(a)] + toks[i:]), f"insert:{a}", i)
            judge(render_tokens(toks[:i] + [alpha_text(a)] + toks[i + 1:]), f"replace:{a}", i)
    if mode == "edit2":
        # k = 2: prefix o edit, the edit within 6 tokens of the cut
        for cut in full_idx[::3][part::nparts]:
            for i in range(max(start, cut - 6), cut):
                if toks[i].type in ("SPACE", "TAB"):
                    continue
                for a in ("(", "{", ";", '"', "if", "ident", "#"):
                    judge(render_tokens(toks[:i] + [alpha_text(a)] + toks[i + 1:cut]), f"prefix-after-replace:{a}", i)
                judge(render_tokens(toks[:i] + toks[i + 1:cut]), "prefix-after-delete", i)
    return n, out


def run(tier, seed):
    st = explore.Stats()
    failures = []
    # ---- (T) tokenizer
    plan = [("layout", 5), ("altspell", 4), ("numbers", 4), ("operators", 4)] if tier == "quick" else \
        [("layout", 6), ("altspell", 5), ("numbers", 5), ("operators", 5)]
    tasks = []
    for name, L in plan:
        tasks += lexcommon.tasks(name, L)
    res = explore.pmap(trie_task, tasks, chunksize=4)
    merged = {}
    nstr = 0
    for n, fails in res:
        nstr += n
        for k, lst in fails.items():
            merged.setdefault(k, []).extend(lst)
    for (sig, cls), lst in sorted(merged.items()):
        lst.sort(key=lambda x: (len(x[0]), x[0]))
        s, d = lst[0]
        failures.append(Failure("C05", f"{sig}:{cls}", f"{d}; input {s!r}", {"kind": "lex", "text": s}))
    fam = list(run_family())
    fres = explore.pmap_timeout(_lex_total_text, [t for _, t in fam], WALL_LIMIT)
    for (label, text), r in zip(fam, fres):
        nstr += 1
        if r == explore.TIMEOUT:
            r = ("lexer:wall-clock-limit", f"no answer within {WALL_LIMIT:.0f} s (a loop the fuel counter does not see, e.g. inside re)")
        if r:
            cname = label.split(":")[1].split("^")[0]
            n_ = int(label.split("^")[1].split("+")[0].rstrip("y"))
            size = "short" if n_ <= 10 else "about100" if n_ <= 101 else "about1000" if n_ <= 1001 else "5000"
            failures.append(Failure("C05", f"{r[0]}:run:{cname}:{size}", f"{r[1]}; input {label}", {"kind": "lex", "text": text}))
    st.bump("lexer_strings", nstr)
    st.runs += nstr
    # ---- whole pipeline on runs of one line, under the wall-clock deadline
    lfam = [(label, ("t.h" if k % 2 else "t.c", text)) for k, (label, text) in enumerate(line_run_family((40, 150) if tier == "quick" else LINE_RUN_LENGTHS))]
    lres = explore.pmap_timeout(_pipeline_total_text, [t for _, t in lfam], WALL_LIMIT)
    for (label, (fn, text)), r in zip(lfam, lres):
        st.runs += 1
        if r == explore.TIMEOUT:
            r = ("pipeline:wall-clock-limit", f"no answer within {WALL_LIMIT:.0f} s")
        if r:
            li = int(label.split(":")[1].split("^")[0])
            failures.append(Failure("C05", f"{r[0] if r[0].startswith('pipeline') else 'pipeline:' + r[0]}:linerun:{LINE_RUNS[li][:12]!r}",
                                    f"{r[1]}; input {label} ({LINE_RUNS[li]!r} x n)", {"kind": "linerun", "fname": fn, "text": text}))
    st.bump("line_run_inputs", len(lfam))
    # ---- (S) pipeline: seeds and deviations
    cs = carriers.conforming("quick", cap=60 if tier == "quick" else 500)
    vs = carriers.violating("quick", per_op=1 if tier == "quick" else 2)
    seeds = [(c["fname"], c["text"]) for c in cs] + [(v["fname"], v["text"]) for v in vs]
    # k = 0
    ptasks = [(f, t, "prefix", 1, 0, 1) for f, t in seeds]
    # edits for a fixed set of seeds covering all block kinds
    from . import diffcommon
    rich = [(e["fname"], e["text"]) for e in diffcommon.enriched()
            if e["ids"][0] in (("enriched", "enriched-h", "exprs0") if tier == "quick" else ("enriched", "enriched-h", "exprs0", "exprs1", "enriched-wide"))]
    edit_seeds = rich + [seeds[i] for i in range(0, len(seeds), max(1, len(seeds) // (5 if tier == "quick" else 9)))][: (5 if tier == "quick" else 9)]
    NP = 12
    etasks = [(f, t, "edit2" if (tier == "thorough" or i < 2) else "edit", 2 if tier == "quick" else 1, part, NP)
              for i, (f, t) in enumerate(edit_seeds) for part in range(NP)]
    # the sample inputs of norminette's own tests (constructs outside the model): every line-prefix of every sample,
    # every token-prefix of a slice (thorough: of all), single-token edits of a slice
    from .. import corpus
    smp = list(corpus.samples())
    # layouts the generators do not derive: a function head under conditional compilation (two heads, one brace), a
    # macro-decorated definition, a prototype that lost its semicolon in front of a definition
    extra = [("cond.c", "#if 0\nint\tf(int a)\n#else\nint\tf(int a, int b)\n#endif\n{\n\treturn (a);\n}\n"),
             ("cond.c", "#if 0\nint\tf(int a)\n#else\nint\tf(int a, int b)\n{\n#endif\n\treturn (a);\n}\n"),
             ("deco.c", "API_EXPORT VISIBILITY(default) /* public */\nint\tf(int a)\n{\n\treturn (a);\n}\n"),
             ("lost.c", "int\tg(int a) // no semicolon\nint\tf(int a)\n{\n\treturn (a);\n}\n"),
             ("cond.h", "#ifndef COND_H\n# define COND_H\n# ifdef A\nint\tf(int a);\n# else\nint\tf(int a, int b)\n# endif\n;\n#endif\n")]
    smp = smp + extra
    seeds_k0 = seeds + smp
    ptasks += [(f, t, "lineprefix0", 1, 0, 1) for f, t in smp]
    tp = smp if tier == "thorough" else corpus.sample_slice(seed, 8)
    ptasks += [(f, t, "prefix0", 1, part, 4) for f, t in tp for part in range(4)]
    es = corpus.sample_slice(seed, 4 if tier == "thorough" else 32)
    etasks += [(f, t, "edit0", 3, part, 6) for f, t in es for part in range(6)]
    k0 = explore.pmap(_k0, seeds_k0, chunksize=8)
    seeds = seeds_k0
    for (f, t), r in zip(seeds, k0):
        st.runs += 1
        if r:
            failures.append(Failure("C05", f"pipeline:seed:{r[0]}", r[1], {"kind": "pipe", "fname": f, "text": t}))
    seen_prefix = set()
    res = explore.pmap(seed_task, ptasks + etasks, chunksize=1)
    merged = {}
    for t, (n, out) in zip(ptasks + etasks, res):
        st.runs += n
        st.bump("runs:" + t[2], n)
        for key, (text, detail) in out.items():
            if key not in merged or len(text) < len(merged[key][1]):
                merged[key] = (t[0], text, detail)
    for (sig,), (fname, text, detail) in sorted(merged.items()):
        failures.append(Failure("C05", f"pipeline:{sig}", f"{detail}; variant of {fname}",
                                {"kind": "pipe", "fname": fname, "text": text}))
    # through main(): one representative per distinct pipeline outcome (and the clean ones)
    reps = [(f, t) for f, t in seeds[:10]] + [(m[0], m[1]) for m in list(merged.values())[:30]]
    # fatal inputs whose offending token spans lines: the fatal diagnostic is one line all the same
    reps += [("multi.c", "# /* a\n b */ define X 1\n"), ("multi.c", "int\tmain(void)\n{\n\t) /* a\n b */ (\n}\n"),
             ("multi.h", "#include /* x\ny */\n")]
    cres = explore.pmap(progrun.cli_text, [(f, t, ["--no-colors"]) for f, t in reps], chunksize=2)
    for (f, t), o in zip(reps, cres):
        st.runs += 1
        bad = None
        if o["exc"] is not None:
            bad = f"main() died with {o['exc'][0]}"
        elif "Traceback" in o["stderr"]:
            bad = "traceback on stderr"
        else:
            lines = [l for l in o["stdout"].split("\n") if l.strip()]
            if not lines or not (any(l.endswith(("OK!", "Error!")) for l in lines)):
                bad = f"no verdict line: {o['stdout'][-100:]!r}"
            elif o["code"] not in (0, None) and lines and lines[-1].startswith("\t") is False and len(lines) >= 2 \
                    and lines[-2].startswith("\t") and not lines[-1].startswith(("Error", "Notice")) and not lines[-1].endswith(("OK!", "Error!")):
                bad = f"fatal-diagnostic-spans-lines: {lines[-2:]!r}"
        if bad and not any(fl.payload.get("text") == t for fl in failures):
            failures.append(Failure("C05", "main:" + bad.split(" ")[0], bad, {"kind": "cli", "fname": f, "text": t}))
    st.states = nstr + len(seeds)
    st.transitions = st.runs
    st.outcomes = set(merged) | {("ok",)}
    if nstr < 10000 or st.vacuity.get("runs:prefix", 0) < 500:
        raise HarnessError("C05 exploration is vacuous")
    st.sample({"edit": "replace token 40 by '('", "seed": edit_seeds[0][0]})
    st.sample({"run_family": "x" + "@" * 8 + "y"})
    return CheckResult(
        st, failures,
        rule="tokenizer: every string of the four focused tries up to the length bound plus the run family c^n / x c^n y; "
             "pipeline: every carrier (k=0), every token-prefix of every carrier with/without final NL, every single-token "
             "delete/insert/replace/swap over a 24-kind token alphabet at every (quick: every second) non-blank token of the "
             "edit seeds, and prefix-after-edit pairs (k=2); a deterministic fuel counter makes non-termination visible; "
             "distinct = distinct failure classes + 1",
        exhaustive=True,
        bounds={"tries": dict(plan), "run_lengths": RUN_LENGTHS, "edit_seeds": len(edit_seeds), "prefix_seeds": len(seeds)},
        alphabet={"token_alphabet": len(TOKEN_ALPHABET), "run_classes": len(RUN_CLASSES)},
        assumptions=BASE_ASSUMPTIONS + ["fuel bound 400*(tokens+chars+50) steps of Context.peek_token/Lexer.raw_peek is far "
                                        "above any terminating run observed (max observed is reported in DESIGN)"],
        distinct=len(merged) + 1,
    )


def _k0(seed):
    return pipeline_total(seed[0], seed[1])


def replay(payload):
    if payload["kind"] == "lex":
        res = explore.pmap_timeout(_lex_total_text, [payload["text"], "a", "b", "c"], WALL_LIMIT)
        explore.close_pool()
        r = res[0]
        if r == explore.TIMEOUT:
            return [Failure("C05", "lexer:wall-clock-limit", "no answer within the wall-clock limit", payload)]
        return [Failure("C05", r[0], r[1], payload)] if r else []
    if payload["kind"] == "linerun":
        res = explore.pmap_timeout(_pipeline_total_text, [(payload["fname"], payload["text"]), ("t.c", "a"), ("t.c", "b"), ("t.c", "c")], WALL_LIMIT)
        explore.close_pool()
        r = res[0]
        if r == explore.TIMEOUT:
            return [Failure("C05", "pipeline:wall-clock-limit", "no answer within the wall-clock limit", payload)]
        return [Failure("C05", r[0], r[1], payload)] if r else []
    if payload["kind"] == "cli":
        o = progrun.cli_text((payload["fname"], payload["text"], ["--no-colors"]))
        if o["exc"] is not None or "Traceback" in o["stderr"]:
            return [Failure("C05", "main", str(o["exc"]), payload)]
        return []
    r = pipeline_total(payload["fname"], payload["text"])
    return [Failure("C05", r[0], r[1], payload)] if r else []
