"""Shared pieces of the differential properties C17 / C18 / C19: carrier selection and enrichment."""
from __future__ import annotations

from .. import carriers, impl
from ..model import norm
from ..model.norm import P, SP, KW, V, C, CH, S, Line, IND, ID, stmt_line, assign, call, ret, ctrl, binop, index


def diag4(fname, text):
    r = impl.run_text(fname, text)
    return [(d[0], d[1], d[2], d[3]) for d in r.diags], (r.exc[0] if r.exc else None), r.stdout


def enriched():
    """Hand-assembled conforming files (as piece lines) carrying comments at every place the grammar
    allows and literals in every expression context (DESIGN §4.17 'carriers')."""
    out = []
    fname = "rich.c"
    pre = norm.preamble(".c", fname)
    L = []
    L.append(Line([P("cmt", "// about this file")], "comment"))
    L.append(Line([P("hash", "#"), P("dir", "include"), SP(), P("incpath", "<unistd.h>"), SP(), P("cmt", "// for write")], "include"))
    L.append(Line([P("hash", "#"), P("dir", "define"), SP(), ID("macro", "PROMPT"), SP()] + S('"sh> % "'), "define"))
    L.append(Line([P("hash", "#"), P("dir", "define"), SP(), ID("macro", "SEP"), SP()] + CH("':'") + [SP(), P("cmt", "/* sep */")], "define"))
    L.append(Line([], "empty"))
    L.append(Line(norm.decl_pieces("static const char", 1, "g_name", "", 21, depth=0, cls="global")
                  + [SP(), P("assign", "="), SP()] + S('"norm"') + [P("semi", ";"), P("tab", "\t"), P("cmt", "// the name")], "global"))
    # literals inside the dimension of a declaration (a place where a rule looks at every token between the brackets)
    L.append(Line(norm.decl_pieces("static int", 0, "g_tally", "", 21, depth=0, cls="global")
                  + [P("lb", "[")] + CH("'z'") + [SP(), P("binop", "-"), SP()] + CH("'a'") + [SP(), P("binop", "+"), SP()] + C("1")
                  + [P("rb", "]"), P("semi", ";")], "global"))
    L.append(Line(norm.decl_pieces("static char", 0, "g_copy", "", 21, depth=0, cls="global")
                  + [P("lb", "["), P("kw", "sizeof"), P("lp", "(")] + S('"hello"') + [P("rp", ")"), P("rb", "]"), P("semi", ";")], "global"))
    L.append(Line([], "empty"))
    L.append(Line([P("cmt", "/*")], "comment"))
    L.append(Line([P("cmt", "** returns the length of s")], "comment"))
    L.append(Line([P("cmt", "*/")], "comment"))
    L.append(Line(norm.sig_line("", "int", 0, "ft_len", [("char", 1, "p", ""), ("int", 0, "n", "")]), "funcsig"))
    L.append(Line([P("lbrace", "{")], "lbrace"))
    L.append(stmt_line(1, call("ft_puts", [S('"hello, world"')]) + [P("semi", ";")], "simple"))
    L.append(stmt_line(1, assign(V("p"), "=", S('"abc"')), "simple"))
    L.append(stmt_line(1, ctrl("if", binop(index(V("p"), V("n")), "==", CH("'x'"))), "ctrl"))
    L.append(stmt_line(2, call("ft_log", [S('"%d;{}"'), V("n")]) + [P("semi", ";")], "simple"))
    L.append(stmt_line(1, ctrl("while", binop(norm.deref(V("p")), "!=", CH("';'"))), "ctrl"))
    L.append(stmt_line(2, norm.post(V("p"), "++") + [P("semi", ";")], "simple"))
    L.append(stmt_line(1, ret(binop(V("n"), "+", CH("'0'"))), "return"))
    L.append(Line([P("rbrace", "}")], "rbrace"))
    L.append(Line([], "empty"))
    L.append(Line([P("cmt", "/* second helper */")], "comment"))
    L.append(Line(norm.sig_line("", "char", 1, "ft_name", []), "funcsig"))
    L.append(Line([P("lbrace", "{")], "lbrace"))
    L.append(stmt_line(1, ret(S('"a string; with { code } inside"')), "return"))
    L.append(Line([P("rbrace", "}")], "rbrace"))
    L.append(Line([P("cmt", "// trailing comment")], "comment"))
    out.append({"ftype": ".c", "fname": fname, "pre": pre, "lines": L, "text": norm.render(pre + L), "ids": ("enriched",)})
    # a violating variant: comments inside the body (V52/V53 style) and a string in a misindented line
    L2 = [l.copy() for l in L]
    L2.insert(15, Line(IND(1) + [P("cmt", "// inside body")], "comment", 1))
    L2[16] = Line(L2[16].pieces + [SP(), P("cmt", "/* eol */")], "simple", 1)
    L2[19] = Line([P("sp", "  ")] + L2[19].pieces[1:], "simple", 2)
    out.append({"ftype": ".c", "fname": fname, "pre": pre, "lines": L2, "text": norm.render(pre + L2), "ids": ("enriched-bad",)})
    # wide comments: as wide as a line of the 42 header, at file level and indented inside a body (too long there)
    L3 = [l.copy() for l in L]
    L3.insert(7, Line([P("cmt", "/*" + " wide" + "x" * 69 + "  */")], "comment"))
    L3.insert(16, Line(IND(1) + [P("cmt", "/*" + " deep" + "y" * 69 + "  */")], "comment", 1))
    L3.insert(17, Line(IND(1) + [P("cmt", "//" + " z" * 38)], "comment", 1))
    out.append({"ftype": ".c", "fname": fname, "pre": pre, "lines": L3, "text": norm.render(pre + L3), "ids": ("enriched-wide",)})
    # expression-rich files: every atom kind of the expression grammar in a statement of its own
    from . import c01_expr as ce
    fname = "exprs.c"
    pre = norm.preamble(".c", fname)
    atoms = [(lab, e) for lab, e, _ in ce.i_atoms()]
    stmts = []
    for k, (lab, e) in enumerate(atoms):
        if lab in ce.SIDE_EFFECT:
            stmts.append(stmt_line(1, ctrl("while", e), "ctrl"))
            stmts.append(stmt_line(2, call("ft_step", [V("n")]) + [P("semi", ";")], "simple"))
        else:
            stmts.append(stmt_line(1, assign(V("res"), "=", e), "simple"))
    stmts.append(stmt_line(1, assign(V("res"), "=", binop(norm.paren(V("n")), "-", C("1"))), "simple"))
    stmts.append(stmt_line(1, assign(V("res"), "=", binop(norm.paren(V("len")), "+", V("n"))), "simple"))
    stmts.append(stmt_line(1, assign(V("res"), "=", binop(norm.cast("t_size", 0, V("n")), "*", norm.sizeof(V("len")))), "simple"))
    for lab, e in ce.p_atoms():
        stmts.append(stmt_line(1, assign(V("p"), "=", e), "simple"))
    # glued forms around a parenthesised identifier (a cast of a signed constant is an idiom; the value forms violate)
    for inner, cls in (("t_size", "typename"), ("len", "var"), ("cnt_t", "typename")):
        for sign in ("-", "+"):
            stmts.append(stmt_line(1, assign(V("res"), "=", [P("lp", "("), ID(cls, inner), P("rp", ")"), P("unop", sign)] + C("1")), "simple"))
    chunk = 20
    for fi in range(0, len(stmts), chunk):
        L = []
        L.append(Line(norm.sig_line("", "int", 0, f"ft_exprs{fi // chunk}", [("int", 0, "n", ""), ("char", 1, "p", ""), ("char", 0, "c", ""),
                                                                           ("t_list", 1, "lst", "")]), "funcsig"))
        L.append(Line([P("lbrace", "{")], "lbrace"))
        L.append(Line(norm.decl_pieces("t_point", 0, "pt", "", 13, 1), "decl", 1))
        L[-1].pieces.append(P("semi", ";"))
        L.append(Line(norm.decl_pieces("int", 0, "res", "", 13, 1) + [P("semi", ";")], "decl", 1))
        L.append(Line(norm.decl_pieces("int", 0, "len", "", 13, 1) + [P("semi", ";")], "decl", 1))
        L.append(Line([], "empty"))
        L += stmts[fi:fi + chunk]
        L.append(stmt_line(1, ret(V("res")), "return"))
        L.append(Line([P("rbrace", "}")], "rbrace"))
        out.append({"ftype": ".c", "fname": fname, "pre": pre, "lines": L, "text": norm.render(pre + L), "ids": (f"exprs{fi // chunk}",)})
    fname = "rich.h"
    pre = norm.preamble(".h", fname)
    H = []
    H.append(Line([P("cmt", "// public interface")], "comment"))
    H.append(Line([P("hash", "#"), P("pind", " "), P("dir", "define"), SP(), ID("macro", "BANNER"), SP()] + S('"== % =="') +
                  [SP(), P("cmt", "// shown at start")], "define"))
    H.append(Line([], "empty"))
    H.append(Line([P("cmt", "/* a point */")], "comment"))
    H += norm._typeblock("struct", 0, 9)
    H.append(Line([], "empty"))
    H.append(Line(norm.sig_line("", "int", 0, "ft_len", [("char", 1, "p", "")], proto_col=9) + [P("semi", ";"), SP(),
                                                                                                 P("cmt", "// length")], "proto"))
    H.append(Line([], "empty"))
    H.append(Line([P("hash", "#"), P("dir", "endif")], "endif"))
    out.append({"ftype": ".h", "fname": fname, "pre": pre, "lines": H, "text": norm.render(pre + H), "ids": ("enriched-h",)})
    # one-letter names that coincide with the naming prefixes (s, u, e, t, g): tags and variables
    fname = "tags.h"
    hdr = norm.preamble(".h", fname)
    T = []
    for kw, tag, cls in (("struct", "s", "struct"), ("union", "u", "union"), ("enum", "e", "enum")):
        T.append(Line([P("type", kw), SP(), ID(cls, tag)], "tbhead"))
        T.append(Line([P("lbrace", "{")], "lbrace"))
        if kw == "enum":
            T.append(Line(IND(1) + [ID("enumr", "E_ONE"), P("comma", ",")], "enumr", 1))
            T.append(Line(IND(1) + [ID("enumr", "E_TWO")], "enumr", 1))
        else:
            T.append(Line(norm.decl_pieces("int", 0, "g", "", 13, 1, cls="member") + [P("semi", ";")], "field", 1))
            T.append(Line(norm.decl_pieces("char", 1, "t", "", 13, 1, cls="member") + [P("semi", ";")], "field", 1))
        T.append(Line([P("rbrace", "}"), P("semi", ";")], "tbend"))
        T.append(Line([], "empty"))
    T.append(Line(norm.sig_line("", "int", 0, "ft_s", [("int", 0, "s", ""), ("int", 0, "u", ""), ("int", 0, "e", "")], proto_col=5)
                  + [P("semi", ";")], "proto"))
    T.append(Line([], "empty"))
    T.append(Line([P("hash", "#"), P("dir", "endif")], "endif"))
    out.append({"ftype": ".h", "fname": fname, "pre": hdr, "lines": T, "text": norm.render(hdr + T), "ids": ("one-letter-names",)})
    # a header whose guard lacks its #define and that defines a macro *containing* the guard name (names of a file
    # may be substrings of one another: a spelling coincidence no rule may depend on)
    fname = "grid.h"
    hdr = [Line([P("hdr", h)], "hdr42") for h in norm.header42.header_lines(fname)] + [Line([], "empty")]
    G = [Line([P("hash", "#"), P("dir", "ifndef"), SP(), ID("guard", "GRID_H")], "ifndef"), Line([], "empty"),
         Line([P("hash", "#"), P("pind", " "), P("dir", "define"), SP(), ID("macro", "GRID_HEIGHT"), SP()] + C("24"), "define"),
         Line([P("hash", "#"), P("pind", " "), P("dir", "define"), SP(), ID("macro", "MY_GRID_H"), SP()] + C("1"), "define"),
         Line([], "empty"),
         Line(norm.sig_line("", "int", 0, "ft_grid", [("int", 0, "grid", ""), ("int", 0, "grid_w", "")], proto_col=5) + [P("semi", ";")], "proto"),
         Line([], "empty"), Line([P("hash", "#"), P("dir", "endif")], "endif")]
    out.append({"ftype": ".h", "fname": fname, "pre": hdr, "lines": G, "text": norm.render(hdr + G), "ids": ("guard-nodef-substring",)})
    return out


def carrier_files(tier, cap_c, cap_v):
    cs = carriers.conforming("quick", cap=cap_c)
    vs = carriers.violating("quick", per_op=1 if tier == "quick" else 3)
    if cap_v and len(vs) > cap_v:
        step = len(vs) / cap_v
        vs = [vs[int(i * step)] for i in range(cap_v)]
    return enriched() + cs + vs
