"""C09 -- token positions are true source positions (DESIGN §4.9, shape T)."""
from ..common import CheckResult, BASE_ASSUMPTIONS
from . import lexcommon

KINDS = ("pos", "printed")


def plan(tier):
    if tier == "quick":
        return [("layout", 5), ("altspell", 5), ("quotes", 5)]
    return [("layout", 7), ("altspell", 6), ("quotes", 6)]


def run(tier, seed):
    st, failures = lexcommon.run_trie("C09", KINDS, plan(tier), seed, extra_cases=carrier_cases(tier, seed))
    return CheckResult(
        st, failures,
        rule="every string over the focused alphabets up to the length bound (input trie, all nodes); "
             "distinct = distinct token-kind sequences produced",
        exhaustive=True,
        bounds={name: n for name, n in plan(tier)},
        alphabet={name: len(lexcommon.ALPHABETS[name]) for name, _ in plan(tier)},
        assumptions=BASE_ASSUMPTIONS + ["the reference scanner mc/model/lexref.py (tab stops every 4 columns, "
                                        "splices and digraph/trigraph spellings as the only normalisations)"],
        distinct=len(st.outcomes),
    )


def carrier_cases(tier, seed):
    try:
        from . import carriers_lex
    except ImportError:
        return []
    return carriers_lex.cases(tier, seed)


def replay(payload):
    return lexcommon.replay_lex(payload, KINDS)
