"""C16 -- options change the presentation, never the findings (DESIGN §4.16; shape H over option vectors)."""
from __future__ import annotations

import itertools
import json
import os
import re
import shutil
import tempfile

from .. import explore, impl, carriers
from ..common import CheckResult, BASE_ASSUMPTIONS, HarnessError
from ..findings import Failure
from ..model import header42

COLORS = [[], ["--no-colors"]]
FORMATS = [[], ["-f", "humanized"], ["-f", "json"]]
ONLY = [[], ["-o"]]
DEBUG = [[], ["-d"], ["-dd"]]
RVALS = [[], ["-R", "Foo"], ["-R", "CheckForbiddenSourceHeader"], ["-R", "CheckDefine"]]

DEFINE_CODES = ("MACRO_NAME_CAPITAL", "MACRO_FUNC_FORBIDDEN", "PREPROC_CONSTANT", "TOO_MANY_VALS", "INCORRECT_DEFINE")
ANSI = re.compile(r"\x1b\[[0-9;]*m")
DIAG = re.compile(r"^(Error|Notice): (\w+)\s+\(line:\s*(\d+), col:\s*(\d+)\):\t(.*)$")
VERDICT = re.compile(r"^(.+): (OK|Error)!$")


UNKNOWN_R = ["CheckDefines", "NoCheckDefine", "checkdefine", "CheckDefine,Foo", "CheckDefin", "Check Define"]


def vectors():
    for c, f, o, d, r in itertools.product(COLORS, FORMATS, ONLY, DEBUG, RVALS):
        yield c + f + o + d + r
    # more unknown -R words (they must change nothing), in a reduced lattice
    for w in UNKNOWN_R:
        for f in ([], ["-f", "json"]):
            yield ["--no-colors"] + f + ["-R", w]


def reduced_vectors():
    """A small lattice (every option once alone, a few combinations) for the files outside the rotating quarter."""
    return [[], ["-d"], ["-dd"], ["-f", "json"], ["-o"], ["--no-colors"], ["-R", "CheckDefine"], ["-R", "Foo"],
            ["-d", "-f", "json"], ["-dd", "-o"], ["--no-colors", "-d", "-R", "CheckDefine"], ["-o", "-f", "json", "-dd", "-R", "Foo"]]


def parse(stdout, is_json):
    """Presentation-independent result: [(basename, verdict, [(level, code, line, col)])]."""
    if is_json:
        last = [l for l in stdout.split("\n") if l.strip()][-1]
        if not last.startswith("{") and '{"files"' in last:
            # -d/-dd dump the tokens of each statement; when the file does not end in a newline the dump of the last
            # statement does not either, and the document follows on the same line (presentation, not findings)
            last = last[last.rindex('{"files"'):]
        doc = json.loads(last)
        out = []
        for f in doc["files"]:
            ds = []
            for e in f["errors"]:
                h = e["highlights"][0]
                ds.append((e["level"], e["name"], h["lineno"], h["column"]))
            out.append((os.path.basename(f["path"]), f["status"], ds))
        return out
    out = []
    for line in ANSI.sub("", stdout).split("\n"):
        m = DIAG.match(line)
        if m and out:
            out[-1][2].append((m.group(1), m.group(2), int(m.group(3)), int(m.group(4))))
            continue
        m = VERDICT.match(line)
        if m and "\t" not in line and " - " not in line:
            name = m.group(1)
            if "> " in name and not name.startswith(">"):
                pass
            elif name.startswith("> "):
                name = name[2:]         # the verdict line glued to the end of a -dd token dump without final newline
            out.append((os.path.basename(name), m.group(2), []))
    return [(a, b, c) for a, b, c in out]


def define_lines(text):
    return {i for i, l in enumerate(text.split("\n"), start=1) if re.match(r"^\s*#\s*define\b", l)}


def file_task(task):
    """Worker: one file under all 96 option vectors + inline-content variants."""
    fname, text = task[0], task[1]
    reduced = len(task) > 2 and task[2]
    d = tempfile.mkdtemp(prefix="mcverif_c16_")
    probs = []
    n = 0
    try:
        path = os.path.join(d, fname)
        with open(path, "w") as f:
            f.write(text)
        base = None
        dl = define_lines(text)
        for vec in (reduced_vectors() if reduced else vectors()):
            n += 1
            o = impl.run_cli(vec + [path])
            if o["exc"] is not None:
                probs.append((" ".join(vec) or "(none)", f"exception:{o['exc'][0]}", str(o["exc"])))
                continue
            try:
                res = parse(o["stdout"], "json" in vec)
            except Exception as e:  # noqa: BLE001
                probs.append((" ".join(vec), "unparsable-output", f"{type(e).__name__}: {o['stdout'][-200:]!r}"))
                continue
            if base is None:
                base = (res, o["code"])
                if len(res) != 1:
                    return n, [("(none)", "no-verdict", f"stdout {o['stdout'][:200]!r}")], None
                continue
            want = base[0]
            if vec[-2:] == ["-R", "CheckDefine"]:
                want = [(a, b2, [x for x in c if not (x[1] in DEFINE_CODES and x[2] in dl)]) for a, b2, c in want]
                want = [(a, "OK" if all(x[0] == "Notice" for x in c) else "Error", c) for a, b2, c in want]
            if res != want:
                probs.append((" ".join(vec), "findings-differ", f"{res} instead of {want}"))
            want_code = 0 if all(v == "OK" for _, v, _ in want) else 1
            if o["code"] != want_code:
                probs.append((" ".join(vec), f"exit={o['code']}", f"expected {want_code}"))
        # inline content (run from a directory that holds another source: nothing but the given content may be analysed)
        flag = "--cfile" if fname.endswith(".c") else "--hfile"
        decoy = os.path.join(d, "decoy")
        os.makedirs(decoy)
        with open(os.path.join(decoy, "decoy.c"), "w") as f:
            f.write("int\tdecoy(void)\n{\n\treturn (1) ;\n}\n")
        variants = [[flag, text, "--filename", fname], ["--no-colors", "-f", "json", flag, text, "--filename", fname]]
        if fname in ("file.c", "file.h"):
            variants.append([flag, text])
        if not text.startswith("-"):
            for v in variants:
                n += 1
                o = impl.run_cli(v, cwd=decoy)
                if o["exc"] is not None:
                    probs.append(("inline", f"exception:{o['exc'][0]}", str(o["exc"])))
                    continue
                try:
                    res = parse(o["stdout"], "json" in v)
                except Exception as e:  # noqa: BLE001
                    probs.append(("inline " + " ".join(x for x in v if x != text), "inline-differs",
                                  f"unparsable output ({type(e).__name__}): {o['stdout'][-200:]!r}"))
                    continue
                if res != base[0]:
                    probs.append(("inline " + " ".join(x for x in v if x != text), "inline-differs", f"{res} instead of {base[0]}"))
        # the same comparison for the content without its final newline (content must be analysed as given)
        if text.endswith("\n") and not text.startswith("-"):
            t2 = text[:-1]
            with open(path, "w") as f:
                f.write(t2)
            o1 = impl.run_cli(["--no-colors", path])
            o2 = impl.run_cli(["--no-colors", flag, t2, "--filename", fname], cwd=decoy)
            n += 2
            if o1["exc"] is None and o2["exc"] is None:
                r1, r2 = parse(o1["stdout"], False), parse(o2["stdout"], False)
                if r1 != r2 or o1["code"] != o2["code"]:
                    probs.append(("inline no-final-newline", "inline-differs", f"file: {r1} exit {o1['code']}; inline: {r2} exit {o2['code']}"))
            elif (o1["exc"] is None) != (o2["exc"] is None):
                probs.append(("inline no-final-newline", "inline-differs", f"file exc {o1['exc']}, inline exc {o2['exc']}"))
        return n, probs, (base[0][0][1] if base else None)
    finally:
        shutil.rmtree(d, ignore_errors=True)


def define_dense():
    h = header42.header_text("defs.c") + "\n"
    body = ("#define lower 1\n#define FUNC(x) x\n#define SUM 1 + 2\n#define GOOD 42\n#define bad_fn(a) a\n\n"
            "int\tmain(void)\n{\n\treturn (GOOD); \n}\n")
    h2 = header42.header_text("defs.h") + "\n"
    body2 = "#ifndef DEFS_H\n# define DEFS_H\n\n# define lower 1\n# define TWO 1 + 1\n# define OK_VAL 3\n\n#endif\n"
    func = "int\tmain(void)\n{\n\treturn (0);\n}\n"
    edges = [("lead.c", "\n" + header42.header_text("lead.c") + "\n" + func), ("lead.c", "\n\n \n" + func),
             ("lead.c", " \t" + header42.header_text("lead.c") + "\n" + func), ("lead.h", "\n" + h2 + body2.replace("DEFS_H", "LEAD_H")),
             ("trail.c", header42.header_text("trail.c") + "\n" + func + "\n\n"), ("trail.c", header42.header_text("trail.c") + "\n" + func + " \t "),
             ("trail.c", header42.header_text("trail.c") + "\n" + func + "\n \n"), ("cr.c", header42.header_text("cr.c") + "\n" + func.replace("\n", "\r\n")),
             ("blank.c", " "), ("blank.h", "\t\n")]
    # lexical diagnostics with several highlights (the report must print the same one in every format)
    lexd = header42.header_text("lexd.c") + "\n" + "int\tmain(void)\n{\n\tint\t\tn;\n\n\tn = 0789 + 0b123 + 0x1g2h;\n\tn = 'a\n\treturn (n);\n}\n"
    # a byte-order mark / a non-ASCII character first: content must be analysed as given in both input modes
    edges.append(("bom.c", "\ufeff" + header42.header_text("bom.c") + "\n" + func))
    edges.append(("bom.h", "\ufeff" + h2.replace("defs.h", "bom.h ") + body2.replace("DEFS_H", "BOM_H")))
    edges.append(("nbsp.c", "\u00a0" + func))
    # non-ASCII text in comments and literals (decoding a stored file must give the characters the inline content has)
    edges.append(("accent.c", header42.header_text("accent.c") + "\n// caf\u00e9 \u00fcber " + "x" * 64 + "\nchar\t*g_s = \"\u00e9t\u00e9\"; \n\n"
                  + func.replace("return (0);", "return ('\u00e9' == 0);")))
    edges.append(("lexd.c", lexd))
    edges.append(("lexd.c", lexd + "char\t*g_s = \"never closed\n"))
    return edges + [("empty.c", ""), ("empty.h", ""), ("nl.c", "\n"), ("defs.c", h + body), ("defs.h", h2 + body2), ("file.c", header42.header_text("file.c") + "\n" + body),
            ("file.h", header42.header_text("file.h") + "\n" + body2.replace("DEFS_H", "FILE_H"))]


def files_for(tier, seed):
    cap = 30 if tier == "quick" else 300
    cs = carriers.conforming(tier if tier == "quick" else "quick", cap=cap)
    vs = carriers.violating("quick", per_op=1 if tier == "quick" else 3)
    out = [(c["fname"], c["text"]) for c in cs]
    # violating files that are analysed to a verdict at debug 0
    for v in vs:
        r = impl.run_text(v["fname"], v["text"])
        if r.exc is None:
            out.append((v["fname"], v["text"]))
    out += define_dense()
    # sample inputs of norminette's own tests that are analysed to a verdict (a rotating quarter in the quick tier)
    from .. import corpus
    full = set(fn for fn, _ in (corpus.samples() if tier != "quick" else corpus.sample_slice(seed, 4)))
    for fn, tx in corpus.samples():
        r = impl.run_text(fn, tx)
        if r.exc is None:
            out.append((fn, tx) if fn in full else (fn, tx, True))      # the others: the reduced lattice
    return out


def run(tier, seed):
    st = explore.Stats()
    files = files_for(tier, seed)
    res = explore.pmap(file_task, files, chunksize=1)
    failures = []
    verdicts = {}
    for (fname, text, *_), (n, probs, verdict) in zip(files, res):
        st.runs += n
        verdicts[verdict] = verdicts.get(verdict, 0) + 1
        for vec, clause, detail in probs:
            optclass = "-R CheckDefine" if "CheckDefine" in vec else "inline" if vec.startswith("inline") else \
                "-dd" if "-dd" in vec.split() else "-d" if "-d" in vec.split() else "json" if "json" in vec else "other"
            failures.append(Failure("C16", f"{clause}:{optclass}", f"{fname} under [{vec}]: {detail[:300]}",
                                    {"fname": fname, "text": text}))
    nv = len(list(vectors()))
    st.states = nv
    st.transitions = st.runs
    st.outcomes = set(f[:2] for f in files)
    for k, v in verdicts.items():
        st.bump(f"files_with_verdict_{k}", v)
    if verdicts.get("Error", 0) == 0 or verdicts.get("OK", 0) == 0:
        raise HarnessError(f"file set is vacuous: {verdicts}")
    st.sample({"option_vector": ["--no-colors", "-f", "json", "-o", "-dd", "-R", "CheckDefine"], "file": files[0][0]})
    st.sample({"file": "defs.c", "text_tail": [t for f, t in define_dense() if f == "defs.c"][0].split("\n")[12:]})
    return CheckResult(
        st, failures,
        rule="all 144 option vectors (colours x format{default,humanized,json} x -o x debug x -R) x every file of the "
             "carrier sets that is analysed to a verdict, plus inline-content variants; the presentation-independent "
             "parse of the output must be identical (modulo the #define diagnostics under -R CheckDefine); "
             "states = option vectors, transitions = (vector, file) runs of main(); distinct = files",
        exhaustive=True, bounds={"files": len(files), "vectors": nv},
        alphabet={"colors": 2, "format": 3, "only": 2, "debug": 3, "R": 4},
        assumptions=BASE_ASSUMPTIONS + ["the output parser of mc/props/c16.py (fixed line shapes, ANSI stripped)"],
        distinct=len(files),
    )


def replay(payload):
    n, probs, _ = file_task((payload["fname"], payload["text"]))
    return [Failure("C16", c, d[:300], payload) for _, c, d in probs]
