"""C18 -- diagnostics do not depend on how identifiers are spelled (DESIGN §4.18; differential)."""
from __future__ import annotations

import string

from .. import explore
from ..common import CheckResult, BASE_ASSUMPTIONS, HarnessError
from ..findings import Failure
from ..model import norm, header42
from . import diffcommon

KEYWORDS = {"auto", "break", "case", "char", "const", "continue", "default", "do", "double", "else", "enum", "extern",
            "float", "for", "goto", "if", "int", "long", "register", "return", "short", "signed", "sizeof", "static",
            "struct", "switch", "typedef", "union", "unsigned", "void", "volatile", "while", "inline", "NULL", "restrict"}
SPECIAL = {"__attribute__", "environ", "defined", "include", "define", "ifndef", "ifdef", "endif", "elif", "undef",
           "pragma", "error", "warning", "import", "line", "main"}
LIBRARY = {"size_t", "ssize_t", "INT_MAX"}

# class -> prefix that carries the naming class
PREFIX = {"global": "g_", "struct": "s_", "typedef": "t_", "union": "u_", "enum": "e_", "typename": ""}
RENAMED_CLASSES = ("var", "local", "param", "func", "global", "struct", "typedef", "union", "enum", "macro", "enumr", "member",
                   "typename", "guard", "label")

# names one character away from a keyword or a special name, by length (lower-case classes)
ADJACENT = ["x", "iz", "dp", "fo", "inu", "ifx", "fob", "nul", "forr", "elze", "gotu", "vold", "caze", "chaz", "whilf", "breal",
            "shorz", "unioz", "floaz", "consu", "doublf", "returm", "sizeoz", "statik", "strucu", "switcg", "definee", "environs",
            "defaulu", "typedeg", "continuf", "unsignee", "volatilf", "registes", "restricu", "attributes"]


def letter_map(kind):
    lo = string.ascii_lowercase
    if kind == "reverse":
        m = {c: lo[25 - i] for i, c in enumerate(lo)}
    elif kind == "rot13":
        m = {c: lo[(i + 13) % 26] for i, c in enumerate(lo)}
    else:
        m = {c: lo[(i + 7) % 26] for i, c in enumerate(lo)}
    m.update({k.upper(): v.upper() for k, v in list(m.items())})
    return m


def split_name(name, cls):
    """(protected prefix, free part)."""
    if cls == "typename":
        for p in ("t_", "s_", "u_", "e_"):
            if name.startswith(p):
                return p, name[len(p):]
        if name in LIBRARY or name in ("t_list", "t_point"):
            return None, name       # a library / externally defined type: never renamed
        return "", name
    if cls == "guard":
        return None, name           # the guard follows the file name
    if cls == "func" and name.startswith("ft_"):
        return "ft_", name[3:]
    p = PREFIX.get(cls, "")
    if p and name.startswith(p):
        return p, name[len(p):]
    return "", name


def candidates(name, cls):
    """Other names of the same length and class (never a keyword or special name)."""
    if name in LIBRARY or name in SPECIAL:
        return []
    pfx, free = split_name(name, cls)
    if pfx is None or not free:
        return []
    out = []
    for kind in ("reverse", "rot13", "shift7"):
        m = letter_map(kind)
        out.append(pfx + "".join(m.get(c, c) for c in free))
    # digit / underscore variant (not in first position)
    if len(free) > 1:
        out.append(pfx + free[:-1] + ("9" if free[-1] != "9" else "8"))
        out.append(pfx + free[0] + "_" + free[2:] if len(free) > 2 else pfx + free[0] + "_")
    # a type-like suffix (still lower snake case): `_t`
    if len(free) >= 3 and free.islower():
        out.append(pfx + free[:-2] + "_t")
    if len(free) == 1 and cls in ("var", "local", "param") and not pfx:
        pass
    # a keyword wrapped in underscores (still an ordinary identifier)
    for kw in sorted(KEYWORDS):
        for cand in (kw + "_", "_" + kw, "_" + kw + "_", kw + "__"):
            if len(cand) == len(free) and kw.islower():
                out.append(pfx + (cand.upper() if free.isupper() else cand))
    # keyword-adjacent name of the same length
    for adj in ADJACENT:
        if len(adj) == len(free):
            cand = adj.upper() if free.isupper() else adj
            out.append(pfx + cand)
    # keep the case pattern of the original (a capital letter is part of the naming class)
    def match_case(c):
        return "".join(ch.upper() if o.isupper() and ch.isalpha() else ch.lower() if o.islower() and ch.isalpha() else ch
                       for o, ch in zip(name, c))
    out = [match_case(c) for c in out]
    out = [c for c in out if all((o.isupper() == ch.isupper()) for o, ch in zip(name, c))]
    if any(ch.isupper() for ch in name) and any(ch.islower() for ch in name):
        # a mixed-case name: the letter that makes it mixed must stay a letter of that case
        out = [c for c in out if all((o.islower() == ch.islower()) for o, ch in zip(name, c))]
    res = []
    for c in out:
        if c != name and len(c) == len(name) and c not in KEYWORDS and c not in SPECIAL and c.lower() not in KEYWORDS \
                and c not in LIBRARY and c not in res:
            res.append(c)
    return res


def identifiers(lines):
    """{(name, class)} of the user identifiers of a file, class = the class of its declaration-like piece."""
    ids = {}
    for l in lines:
        for p in l.pieces:
            if p.tag.startswith("id:"):
                cls = p.tag[3:]
                if cls in RENAMED_CLASSES:
                    # a name used under several tags (declared as local, used as var) keeps its first non-'var' class
                    if p.text not in ids or ids[p.text] == "var":
                        ids[p.text] = cls
    return ids


def rename(lines, mapping):
    new = []
    for l in lines:
        if any(p.tag.startswith("id:") and p.text in mapping for p in l.pieces):
            l2 = l.copy()
            l2.pieces = [norm.P(p.tag, mapping[p.text]) if p.tag.startswith("id:") and p.text in mapping else p for p in l.pieces]
            new.append(l2)
        else:
            new.append(l)
    return new


def file_task(task):
    fname, pre, lines, tier = task
    base_text = norm.render(pre + lines)
    base = diffcommon.diag4(fname, base_text)
    ids = identifiers(lines)
    out = []
    n = 0
    cands = {name: candidates(name, cls) for name, cls in ids.items()}

    def judge(mapping, label):
        nonlocal n
        if len(set(mapping.values())) != len(mapping) or set(mapping.values()) & (set(ids) - set(mapping)):
            return          # a renaming must stay injective
        text = norm.render(pre + rename(lines, mapping))
        n += 1
        got = diffcommon.diag4(fname, text)
        if got != base:
            a, b = set(got[0]), set(base[0])
            out.append((label, f"renaming {mapping}: only after {sorted(a - b)[:3]}, only before {sorted(b - a)[:3]}, "
                               f"exc {got[1]} vs {base[1]}", text))

    # k = 1: every identifier alone to every member of its pool
    for name, cs in cands.items():
        for i, c in enumerate(cs):
            kind = "map" if i < 3 else "digit" if i < 5 else "keyword-adjacent"
            judge({name: c}, f"single:{ids[name]}:{kind}")
    # all together under each map
    for i in range(3):
        mapping = {name: cs[i] for name, cs in cands.items() if len(cs) > i}
        if mapping:
            judge(mapping, "all:map")
    mapping = {name: cs[-1] for name, cs in cands.items() if cs}
    if mapping:
        judge(mapping, "all:last")
    return n, out, len(ids), base_text


PROTECTED_PREFIXES = ("ft_", "g_", "s_", "t_", "u_", "e_")


def sample_task(task):
    """Worker: one sample input of norminette's own tests, at token level: every IDENTIFIER token that is not a name the
    tool treats specially is a user identifier; its naming-class prefix (case-insensitively) and case pattern are kept."""
    from .. import impl
    from ..model import lexref
    fname, text, percap = task
    t, errs, exc = impl.lex(text, fname)
    if t is None:
        return 0, [], 0
    al = lexref.align(text, t, set())
    if not al["ok"]:
        return 0, [], 0
    guard = fname.upper().replace(".", "_")
    occ = {}
    for x, (a, b) in zip(t, al["spans"]):
        if x.type != "IDENTIFIER" or text[a:b] != x.value:
            continue
        name = x.value
        ls = text.rfind("\n", 0, a) + 1
        head = text[ls:a].replace(" ", "").replace("\t", "")
        rest_of_line = text[ls:text.find("\n", ls) if text.find("\n", ls) != -1 else len(text)].replace(" ", "").replace("\t", "")
        computed = head.startswith(("#include", "#import")) and not rest_of_line[len("#include"):].lstrip("e").startswith(("<", '"')) \
            and head not in ("#",) and head.rstrip() in ("#include", "#import")
        if (head.startswith(("#include", "#import", "#pragma", "#error", "#warning")) and not computed) or head == "#":
            occ.setdefault(name, None)          # a directive name or part of an include path: never renamed
            occ[name] = None
            continue
        if name in KEYWORDS or name in SPECIAL or name in LIBRARY or name.upper() == guard or name.startswith("__"):
            occ[name] = None
            continue
        if name in occ and occ[name] is None:
            continue
        occ.setdefault(name, []).append((a, b))
    ids = {n_: v for n_, v in occ.items() if v}
    base = diffcommon.diag4(fname, text)
    cands = {}
    for name in ids:
        pfx = next((p_ for p_ in PROTECTED_PREFIXES if name.lower().startswith(p_) and len(name) > len(p_)), "")
        free = name[len(pfx):]
        cs = [name[:len(pfx)] + c for c in candidates(free, "var")]
        cands[name] = [c for c in cs if c not in occ and not c.lower().startswith(PROTECTED_PREFIXES) or c.lower().startswith(pfx) and pfx]
        cands[name] = [c for c in cands[name] if c not in occ]
    out = []
    n = 0

    def judge(mapping, label):
        nonlocal n
        if len(set(mapping.values())) != len(mapping) or set(mapping.values()) & set(occ):
            return
        edits = sorted((a, b, new) for name, new in mapping.items() for a, b in ids[name])
        parts, last = [], 0
        for a, b, new in edits:
            parts.append(text[last:a] + new)
            last = b
        parts.append(text[last:])
        v = "".join(parts)
        n += 1
        got = diffcommon.diag4(fname, v)
        if got != base:
            x, y = set(got[0]), set(base[0])
            out.append((label, f"renaming {mapping}: only after {sorted(x - y)[:3]}, only before {sorted(y - x)[:3]}, "
                               f"exc {got[1]} vs {base[1]}", v))

    for name, cs in cands.items():
        for i, c in enumerate(cs[:percap]):
            judge({name: c}, f"sample:single:{'map' if i < 3 else 'other'}")
    for i in range(3):
        mapping = {name: cs[i] for name, cs in cands.items() if len(cs) > i}
        if mapping:
            judge(mapping, "sample:all:map")
    return n, out, len(ids)


def collision_files():
    """Files whose identifiers of different classes coincide up to case, to an affix or to a keyword stem: a macro SIZE
    beside a variable size used as an array dimension, a type t_item beside a variable item and a macro T_ITEM, a
    function ft_len beside a variable len and a macro LEN.  No rule may relate two names by their spelling."""
    h = header42.header_text("collide.c") + "\n"
    a = (h + "#include <unistd.h>\n#define SIZE 10\n#define LEN 4\n#define T_ITEM 2\n\n"
         "static int\tft_len(char *str, int size, int len)\n{\n\tchar\tbuf[size];\n\tint\t\ttab[LEN];\n\tint\t\titem;\n\n"
         "\titem = T_ITEM;\n\ttab[0] = len + SIZE;\n\tbuf[0] = str[item];\n\treturn (tab[0] + buf[0]);\n}\n\n"
         "int\tmain(void)\n{\n\treturn (ft_len(\"abc\", 3, 1));\n}\n")
    hh = header42.header_text("collide.h") + "\n"
    b = (hh + "#ifndef COLLIDE_H\n# define COLLIDE_H\n\n# define ITEM 1\n# define item_max 8\n\ntypedef struct s_item\n{\n\tint\t\titem;\n"
         "\tchar\t*s_item;\n}\tt_item;\n\nint\t\tft_item(t_item *item, int t_item_count);\n\n#endif\n")
    # names that are fragments of words the tool treats specially (__attribute__, environ, defined, main, keywords)
    hf = header42.header_text("frag.h") + "\n"
    c = (hf + "#ifndef FRAG_H\n# define FRAG_H\n\nint\t\tattr(int tri, int e);\nint\t\ti(void);\nchar\t*but(char *at, int ute);\n"
         "int\t\tenv(int iron, int mai);\nvoid\tdefine(int def, int ined);\nint\t\tels(int whil, int retur, int nt);\n\n#endif\n")
    hc = header42.header_text("frag.c") + "\n"
    d = (hc + "int\tattr(int tri, int e);\nint\ti(void);\n\nint\tretur(int whil, int els)\n{\n\tint\tin;\n\tint\tvoi;\n\n"
         "\tin = attr(whil, els);\n\tvoi = i();\n\treturn (in + voi);\n}\n")
    # user identifiers spelled like the tool's internal token-kind names (upper-case macros, as users write them)
    hk = header42.header_text("kinds.c") + "\n"
    e = (hk + "#define TAB 9\n#define SPACE 32\n#define NEWLINE 10\n#define MULT 3\n#define SEMI_COLON 59\n#define IDENTIFIER 1\n"
         "#define CONSTANT 2\n#define COMMA 44\n#define LPARENTHESIS 40\n#define ASSIGN 61\n\n"
         "int\tft_kind(int c)\n{\n\tif (c == TAB || c == SPACE)\n\t\treturn (IDENTIFIER);\n\tif (c == NEWLINE && c != SEMI_COLON)\n"
         "\t\treturn (CONSTANT * MULT);\n\treturn (c + COMMA - LPARENTHESIS + ASSIGN);\n}\n")
    hkh = header42.header_text("kinds.h") + "\n"
    f = (hkh + "#ifndef KINDS_H\n# define KINDS_H\n\n# define TAB 9\n# define STRING \"s\"\n# define RBRACE 125\n\n"
         "int\t\tft_kind(int tab, int space, int newline);\n\n#endif\n")
    # a macro as the argument of a directive (a computed include is fatal for the tool today, whatever the macro is
    # called: it must stay so for every spelling), and macros used in #if / #ifdef / #undef
    hm = header42.header_text("macro.c") + "\n"
    g = hm + "#include FT_CONFIG_H\n\nint\tmain(void)\n{\n\treturn (0);\n}\n"
    g2 = (hm + "#ifdef FT_DEBUG_H\n# define FT_LEVEL_H 2\n#else\n# define FT_LEVEL_H 0\n#endif\n#if FT_LEVEL_H > 1 && defined(FT_TRACE_H)\n# undef FT_TRACE_H\n#endif\n\n"
          "int\tmain(void)\n{\n\treturn (FT_LEVEL_H);\n}\n")
    return [("collide.c", a), ("collide.h", b), ("frag.h", c), ("frag.c", d), ("kinds.c", e), ("kinds.h", f), ("macro.c", g), ("macro.c", g2)]


def run(tier, seed):
    st = explore.Stats()
    files = diffcommon.carrier_files(tier, 60 if tier == "quick" else 600, 60 if tier == "quick" else 0)
    tasks = [(f["fname"], f["pre"], f["lines"], tier) for f in files]
    res = explore.pmap(file_task, tasks, chunksize=1)
    failures = []
    nid = 0
    for t, (n, out, k, base_text) in zip(tasks, res):
        st.runs += n
        nid += k
        for label, detail, text in out:
            failures.append(Failure("C18", label, f"{t[0]}: {detail[:300]}", {"fname": t[0], "text": text, "base": base_text}))
    from .. import corpus
    smp = [(fn, tx, 4 if tier == "quick" else 40) for fn, tx in corpus.samples()]
    smp += [(fn, tx, 40) for fn, tx in collision_files()]
    sres = explore.pmap(sample_task, smp, chunksize=1)
    nsid = 0
    for (fn, tx, _), (n, out, k) in zip(smp, sres):
        st.runs += n
        nsid += k
        for label, detail, text in out:
            failures.append(Failure("C18", label, f"{fn}: {detail[:300]}", {"fname": fn, "text": text, "base": tx}))
    st.bump("sample_identifiers_renamed", nsid)
    st.bump("identifiers_renamed", nid)
    if nid < 100:
        raise HarnessError("no identifiers to rename")
    st.states = len(files)
    st.transitions = st.runs
    st.outcomes = set(range(len(files)))
    st.sample({"identifier": "ft_count", "class": "func", "pool": candidates("ft_count", "func")})
    st.sample({"identifier": "g_name", "class": "global", "pool": candidates("g_name", "global")})
    st.sample({"identifier": "n", "class": "param", "pool": candidates("n", "param")})
    return CheckResult(
        st, failures,
        rule="every carrier / enriched file: every user identifier renamed alone to every member of its pool (three letter "
             "maps, digit/underscore variants, keyword-adjacent names of the same length; class prefix kept) and all "
             "identifiers together under each map; oracle: identical (level, code, line, col) diagnostics; distinct = files",
        exhaustive=True, bounds={"files": len(files)},
        alphabet={"maps": 3, "keyword_adjacent_names": len(ADJACENT)},
        assumptions=BASE_ASSUMPTIONS + ["the model's knowledge of identifier classes (piece tags of mc/model/norm.py)"],
        distinct=len(files),
    )


def replay(payload):
    a = diffcommon.diag4(payload["fname"], payload["text"])
    b = diffcommon.diag4(payload["fname"], payload["base"])
    return [Failure("C18", "differs", f"{a[0][:4]} vs {b[0][:4]}", payload)] if a != b else []
