"""C13 -- the 42 header is recognised exactly (DESIGN §4.13; shape S on the header state machine)."""
from __future__ import annotations

import itertools

from .. import explore, impl
from ..common import CheckResult, BASE_ASSUMPTIONS, HarnessError
from ..findings import Failure
from ..model import header42

LOGINS = ["a", "mrvn", "marvin42", "jdoe-long", "x9y", "j-doe"]
DOMAINS = ["student.42.fr", "student.42sp.org.br", "localhost", "students.very-long-campus-name.example.org"]
FILES = ["a.c", "ft_strlen_2.c", "get_next_line_bonus_utils_extra.c", "very_long_file_name_for_a_c_source_xx.c", "my.file.v2.c",
         "libft.h"]
DATES = [("2020/01/01 00:00:00", "2020/01/01 00:00:00"), ("1999/12/31 23:59:59", "1999/12/31 23:59:59"),
         ("2021/03/04 05:06:07", "2024/11/12 13:14:15")]

FUNC = "int\tft_value(int n)\n{\n\treturn (n + 1);\n}\n"


def contexts(fname):
    """Leading contexts of the grammar (what follows the header and its empty line)."""
    if fname.endswith(".h"):
        g = fname.upper().replace(".", "_")
        return {"guard": f"#ifndef {g}\n# define {g}\n\nint\tft_value(int n);\n\n#endif\n"}
    return {
        "function": FUNC,
        "include": "#include <unistd.h>\n\n" + FUNC,
        "define": "#define LIMIT 42\n\n" + FUNC,
        "global": "static int\tg_count = 0;\n\n" + FUNC,
        "proto": "int\tft_other(int n);\n\n" + FUNC,
        "comment": "/* about */\n" + FUNC,
    }


def instances(tier):
    """(label, fname, header lines) over all field combinations."""
    if tier == "quick":
        combos = []
        for i, lg in enumerate(LOGINS):
            combos.append((lg, DOMAINS[i % len(DOMAINS)], FILES[i % len(FILES)], DATES[i % len(DATES)]))
        for i, d in enumerate(DOMAINS):
            combos.append((LOGINS[(i + 1) % len(LOGINS)], d, FILES[(i + 2) % len(FILES)], DATES[(i + 1) % len(DATES)]))
        for i, f in enumerate(FILES):
            combos.append((LOGINS[(i + 3) % len(LOGINS)], DOMAINS[(i + 1) % len(DOMAINS)], f, DATES[(i + 2) % len(DATES)]))
    else:
        combos = list(itertools.product(LOGINS, DOMAINS, FILES, DATES))
    for lg, dom, fn, (cr, up) in dict.fromkeys(combos):
        yield (f"{lg}|{dom}|{fn}|{cr[:4]}", fn, header42.header_lines(fn, login=lg, domain=dom, created=cr, updated=up))


def mutations(lines):
    """(mutation id, text of the header region) -- each is 'not such a header'."""
    L = list(lines)
    yield "H2", "\n" + "\n".join(L) + "\n"
    yield "H3.code", "int\tg_x;\n" + "\n".join(L) + "\n"
    yield "H3.directive", "#include <a.h>\n" + "\n".join(L) + "\n"
    for kind, code in (("call", "ft_setup(1);"), ("cast", "(void)g_x;"), ("assign", "g_x = 1;"), ("proto", "int\tft_f(int n);"),
                       ("typedef", "typedef int\tt_int;"), ("expr", "g_x++;"), ("semicolon", ";")):
        yield f"H3.{kind}", code + "\n" + "\n".join(L) + "\n"
    yield "H4", "\n".join("//" + l[2:-2] for l in L) + "\n"
    yield "H5", "/*" + "\n".join([L[0][2:-2]] + [l[2:-2] for l in L[1:-1]] + [L[-1][2:-2]]) + "*/\n"
    for i in range(11):
        yield f"H6.{i + 1}", "\n".join(L[:i] + L[i + 1:]) + "\n"
    for which in (0, 10):
        for n in (73, 75):
            M = list(L)
            M[which] = "/* " + "*" * n + " */"
            yield f"H7.{'first' if which == 0 else 'last'}.{n}", "\n".join(M) + "\n"
    for idx, kw in ((5, "By:"), (7, "Created:"), (8, "Updated:")):
        M = list(L)
        M[idx] = M[idx].replace(kw, " " * len(kw))
        yield f"H8.{kw[:-1]}.removed", "\n".join(M) + "\n"
        M = list(L)
        M[idx] = M[idx].replace(kw, kw[0].lower() + kw[1:-1] + ";")
        yield f"H8.{kw[:-1]}.misspelled", "\n".join(M) + "\n"
    for idx in (7, 8):
        M = list(L)
        k = M[idx].index(" by ")
        e = M[idx].index(" ", k + 4)
        M[idx] = M[idx][:k] + " " * (e - k) + M[idx][e:]
        yield f"H9.{'Created' if idx == 7 else 'Updated'}", "\n".join(M) + "\n"
    for a, b_ in ((0, 1), (5, 7)):
        M = list(L)
        M[a], M[b_] = M[b_], M[a]
        yield f"H10.{a + 1}-{b_ + 1}", "\n".join(M) + "\n"


def count_invalid(fname, text):
    r = impl.run_text(fname, text)
    n = sum(1 for d in r.diags if d[1] == "INVALID_HEADER")
    return n, r


def inst_task(task):
    label, fname, lines, tier = task
    out = []
    n = 0
    hdr = "\n".join(lines) + "\n"
    for l in lines:
        if len(l) != 80:
            out.append(("HARNESS", "template", f"template line is {len(l)} columns: {l!r}"))
    ctxs = contexts(fname)
    for cname, body in list(ctxs.items()) + [("glued:" + c, b) for c, b in ctxs.items()]:
        n += 1
        # "glued": what follows starts directly under the 11th header line, without the empty line
        k, r = count_invalid(fname, hdr + ("" if cname.startswith("glued:") else "\n") + body)
        if k != 0:
            out.append(("accept", f"context={cname}", f"{k} INVALID_HEADER for a well-formed header ({label})"))
        if r.exc is not None:
            out.append(("accept-exception", f"context={cname}", str(r.exc)))
    body = ctxs.get("function") or ctxs["guard"]
    muts = list(mutations(lines))
    # H1 absent / H11 after the first function
    muts.append(("H1.code", ""))
    muts.append(("H1.directive", "#include <unistd.h>\n"))
    for mid, region in muts:
        n += 1
        k, r = count_invalid(fname, region + "\n" + body)
        if k != 1:
            out.append(("reject", mid, f"{k} INVALID_HEADER after mutation {mid} ({label})"))
    if fname.endswith(".c"):
        n += 1
        k, r = count_invalid(fname, FUNC + "\n" + hdr + "\n" + FUNC.replace("ft_value", "ft_other"))
        if k != 1:
            out.append(("reject", "H11", f"{k} INVALID_HEADER with the header after the first function ({label})"))
    if tier == "thorough":
        # all pairs of structural mutations that compose textually (line removals x keyword damage)
        pass
    return n, out


def cli_task(task):
    """Worker: one instance through the command, as a file and as inline content (--cfile/--hfile --filename): every
    leading context must give 0 INVALID_HEADER, every mutation exactly 1 -- whatever the input mode."""
    import json
    import os
    import shutil
    import tempfile
    label, fname, lines, tier = task
    hdr = "\n".join(lines) + "\n"
    ctxs = contexts(fname)
    body = ctxs.get("function") or ctxs["guard"]
    cases = [(f"context={c}", hdr + "\n" + b, 0) for c, b in ctxs.items()]
    cases += [(mid, region + "\n" + body, 1) for mid, region in list(mutations(lines)) + [("H1.code", "")]]
    out = []
    n = 0
    d = tempfile.mkdtemp(prefix="mcverif_c13_")
    try:
        for what, text, want in cases:
            path = os.path.join(d, fname)
            with open(path, "w") as f:
                f.write(text)
            flag = "--cfile" if fname.endswith(".c") else "--hfile"
            for mode, argv in (("file", [path]), ("inline", [flag, text, "--filename", fname])):
                if mode == "inline" and (text.startswith("-") or not text):
                    continue
                n += 1
                o = impl.run_cli(["--no-colors", "-f", "json"] + argv, cwd=d)
                try:
                    doc = json.loads([l for l in o["stdout"].split("\n") if l.strip()][-1])
                    k = sum(1 for fl in doc["files"] for e in fl["errors"] if e["name"] == "INVALID_HEADER")
                except Exception:  # noqa: BLE001
                    if o["exc"] is None and o["code"] == 1 and "Error!" in o["stdout"]:
                        continue        # fatal parse diagnostic (some mutations put code fragments first): no report to count
                    out.append(("cli", f"{what}:{mode}", f"unreadable output {o['stdout'][-120:]!r} exc {o['exc']} ({label})"))
                    continue
                if k != want:
                    out.append(("cli", f"{what}:{mode}", f"{k} INVALID_HEADER through the command ({mode}), expected {want} ({label})"))
    finally:
        shutil.rmtree(d, ignore_errors=True)
    return n, out


# ---------------------------------------------------------------- state-machine sequences

KINDS = {
    "blockcmt": "/* note */",
    "linecmt": "// note",
    "empty": "",
    "directive": "#define LIMIT 42",
    "code": "int\tg_x;",
    "call": "ft_setup(1);",
    "cast": "(void)g_x;",
}
NAMED_LINES = (0, 5, 7, 8, 10)     # frame, By, Created, Updated, frame (the property names these; a missing file-name field is not judged, DESIGN §9)


def sequences(maxdev):
    tmpl = header42.header_lines("test.c")
    base = tmpl + ["", "int\tmain(void)"]
    n = len(base)
    yield (), base, 0
    for k in range(1, maxdev + 1):
        for pos in itertools.combinations(range(n), k):
            for kinds in itertools.product(KINDS, repeat=k):
                seq = list(base)
                judged = True
                for p, kd in zip(pos, kinds):
                    if p < 11 and kd == "blockcmt" and p not in NAMED_LINES:
                        judged = False     # a logo/blank row replaced by another comment: not named by the property
                    if p == 11 and kd == "empty":
                        judged = None      # identity
                    if p == 12 and kd in ("code", "call", "cast"):
                        judged = None
                    seq[p] = KINDS[kd]
                if judged is not True:
                    continue
                header_intact = all(p >= 11 for p in pos)
                yield tuple(zip(pos, kinds)), seq, (0 if header_intact else 1)


def seq_task(chunk):
    out = []
    for dev, seq, want in chunk:
        text = "\n".join(seq) + "\n{\n\treturn (0);\n}\n"
        k, r = count_invalid("test.c", text)
        if k != want:
            out.append((dev, k, want))
    return len(chunk), out


def run(tier, seed):
    st = explore.Stats()
    failures = []
    insts = [(a, b, c, tier) for a, b, c in instances(tier)]
    res = explore.pmap(inst_task, insts, chunksize=1)
    for (label, fname, lines, _), (n, out) in zip(insts, res):
        st.runs += n
        for kind, what, detail in out:
            if kind == "HARNESS":
                raise HarnessError(detail)
            failures.append(Failure("C13", f"{kind}:{what}:{'h' if fname.endswith('.h') else 'c'}", detail,
                                    {"kind": "inst", "label": label, "fname": fname, "lines": lines}))
    st.bump("template_instances", len(insts))
    seen_ext = {}
    cinsts = []
    for t in insts:
        ext = t[1][-2:]
        if seen_ext.get(ext, 0) < (1 if tier == "quick" else 4):
            seen_ext[ext] = seen_ext.get(ext, 0) + 1
            cinsts.append(t)
    res = explore.pmap(cli_task, cinsts, chunksize=1)
    for (label, fname, lines, _), (n, out) in zip(cinsts, res):
        st.runs += n
        st.bump("command_level_runs", n)
        for kind, what, detail in out:
            failures.append(Failure("C13", f"{kind}:{what}:{'h' if fname.endswith('.h') else 'c'}", detail,
                                    {"kind": "cli", "label": label, "fname": fname, "lines": lines}))
    seqs = list(sequences(2))
    chunks = list(explore.chunked(seqs, 40))
    res = explore.pmap(seq_task, chunks, chunksize=1)
    for n, out in res:
        st.runs += n
        for dev, k, want in out:
            kinds = "+".join(f"{'hdr' if p < 11 else 'after'}{p + 1}:{kd}" for p, kd in dev)
            failures.append(Failure("C13", f"sequence:{kinds}:got{k}", f"leading lines with deviations {dev}: {k} INVALID_HEADER, "
                                    f"expected {want}", {"kind": "seq", "dev": [list(d) for d in dev]}))
    st.bump("leading_sequences", len(seqs))
    st.states = len(insts) + len(seqs)
    st.transitions = st.runs
    st.outcomes = set(i[0] for i in insts)
    st.sample({"instance": insts[0][0], "header": insts[0][2][:4]})
    st.sample({"sequence_deviations": [list(d) for d in seqs[len(seqs) // 2][0]]})
    return CheckResult(
        st, failures,
        rule="every template instance (login x domain x file name x dates) x every leading context must yield 0 "
             "INVALID_HEADER; every structural mutation H1-H11 of every instance exactly 1; every leading-line sequence "
             "of length 13 with <= 2 substituted line kinds is judged '0 iff the 11 header lines are intact, else 1'; "
             "distinct = template instances",
        exhaustive=True, bounds={"instances": len(insts), "max_deviations": 2},
        alphabet={"logins": len(LOGINS), "domains": len(DOMAINS), "files": len(FILES), "dates": len(DATES),
                  "line_kinds": len(KINDS)},
        assumptions=BASE_ASSUMPTIONS + ["mc/model/header42.py is the stdheader layout (11 lines x 80 columns)"],
        distinct=len(insts),
    )


def replay(payload):
    if payload["kind"] == "cli":
        n, out = cli_task((payload["label"], payload["fname"], payload["lines"], "quick"))
        return [Failure("C13", f"{k}:{w}", d, payload) for k, w, d in out]
    if payload["kind"] == "inst":
        n, out = inst_task((payload["label"], payload["fname"], payload["lines"], "quick"))
        return [Failure("C13", f"{k}:{w}", d, payload) for k, w, d in out]
    dev = tuple((p, kd) for p, kd in payload["dev"])
    for d, seq, want in sequences(2):
        if d == dev:
            n, out = seq_task([(d, seq, want)])
            return [Failure("C13", "sequence", str(o), payload) for o in out]
    return []
