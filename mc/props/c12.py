"""C12 -- alternative spellings and line splices do not change the tokens (DESIGN §4.12; deviation-bounded)."""
from __future__ import annotations

import itertools

from .. import explore, impl, carriers
from ..common import CheckResult, BASE_ASSUMPTIONS, HarnessError
from ..findings import Failure
from ..model import lexref, norm
from ..model.lexref import line_width

ALT = {"{": ["<%", "??<"], "}": ["%>", "??>"], "[": ["<:", "??("], "]": [":>", "??)"], "#": ["%:", "??="],
       "^": ["??'"], "|": ["??!"], "~": ["??-"]}
# multi-character operators spelled with trigraphs inside (longest match must be the same)
ALT_MULTI = {"||": ["??!??!", "|??!", "??!|"], "|=": ["??!="], "^=": ["??'="]}
RESPELL_TAGS = ("lbrace", "rbrace", "lb", "rb", "hash")
BRACE_TAGS = ("lbrace", "rbrace", "lb", "rb")
SPLICES = ["\\\n", "??/\n"]


def toks(text, fname="t.c"):
    t, errs, exc = impl.lex(text, fname)
    if exc is not None:
        return None, exc
    return [(x.type, x.value) for x in t], None


def sites_of(lines):
    """(line index, piece index, tag, char) of every respellable punctuator piece."""
    out = []
    for li, l in enumerate(lines):
        for pi, p in enumerate(l.pieces):
            if p.tag in RESPELL_TAGS and p.text in ALT:
                out.append((li, pi, p.tag, p.text))
            elif p.tag in ("binop", "unop") and p.text in ("^", "|", "~"):
                out.append((li, pi, "op", p.text))
    return out


def respell(lines, choice):
    """choice: {(li, pi): spelling} -> new list of Lines."""
    new = list(lines)
    touched = {}
    for (li, pi), sp in choice.items():
        if li not in touched:
            touched[li] = new[li].copy()
            new[li] = touched[li]
        touched[li].pieces[pi] = norm.P(touched[li].pieces[pi].tag, sp)
    return new


def file_task(task):
    """Worker: one carrier file -- respellings (k = 0, 1, 2, all) and splices at every token boundary."""
    fname, ftype, pre_lines, lines, tier, do_diag = task
    out = []
    n = 0
    base_text = norm.render(pre_lines + lines)
    base, exc = toks(base_text, fname)
    if base is None:
        return 0, [("HARNESS", "base", str(exc), base_text)], 0
    sites = sites_of(lines)
    base_diag = None
    if do_diag:
        r0 = impl.run_text(fname, base_text)
        base_diag = (sorted((d[0], d[1], d[2]) for d in r0.diags), r0.exc)

    def judge(choice, label):
        nonlocal n
        new = respell(lines, choice)
        text = norm.render(pre_lines + new)
        n += 1
        t, exc = toks(text, fname)
        if t != base:
            k = next((i for i, (a, b) in enumerate(zip(t or [], base)) if a != b), None)
            out.append(("tokens", label, f"tokens differ at index {k}: {(t or [None])[k] if k is not None and t else exc} vs "
                                         f"{base[k] if k is not None else ''}", text))
            return
        if do_diag and all(tag in BRACE_TAGS for (li, pi), sp in choice.items() for tag in [lines[li].pieces[pi].tag]) \
                and all(line_width(new[li].text()) <= 80 for (li, pi) in choice):
            r = impl.run_text(fname, text)
            n += 1
            got = (sorted((d[0], d[1], d[2]) for d in r.diags), r.exc)
            if got != base_diag:
                a, b = set(map(tuple, got[0])), set(map(tuple, base_diag[0]))
                out.append(("diagnostics", label, f"diagnostics differ: only respelled {sorted(a - b)[:3]}, only plain {sorted(b - a)[:3]}, "
                                                  f"exc {got[1]} vs {base_diag[1]}", text))

    # k = 1
    for (li, pi, tag, ch) in sites:
        for sp in ALT[ch]:
            judge({(li, pi): sp}, f"k1:{tag}:{'digraph' if len(sp) == 2 else 'trigraph'}")
    # k = 2 (all pairs when few sites, else adjacent pairs)
    pairs = list(itertools.combinations(sites, 2))
    if len(sites) > 12:
        pairs = [(sites[i], sites[i + 1]) for i in range(len(sites) - 1)] + [(sites[0], sites[-1])]
    for a, b in pairs:
        for which in ((0, 0), (-1, -1), (0, -1)):
            judge({(a[0], a[1]): ALT[a[3]][which[0]], (b[0], b[1]): ALT[b[3]][which[1]]},
                  f"k2:{a[2]}+{b[2]}")
    # every subset when there are <= 6 sites
    if 2 < len(sites) <= 6:
        for k in range(3, len(sites) + 1):
            for sub in itertools.combinations(sites, k):
                judge({(s[0], s[1]): ALT[s[3]][0] for s in sub}, f"k{k}:subset")
    # all respelled
    if sites:
        judge({(s[0], s[1]): ALT[s[3]][0] for s in sites}, "all:digraph")
        judge({(s[0], s[1]): ALT[s[3]][-1] for s in sites}, "all:trigraph")
    # splices at token boundaries (of the body; the header is excluded: its lines are 80 columns of comment)
    t, errs, exc = impl.lex(base_text, fname)
    al = lexref.align(base_text, t, set())
    nsp = 0
    if al["ok"]:
        start_body = len(norm.render(pre_lines))
        bounds = [(i, sp[0]) for i, sp in enumerate(al["spans"]) if sp[0] >= start_body and i > 0]
        step = 1 if tier == "thorough" or len(bounds) < 150 else 2
        for i, off in bounds[::step]:
            if t[i - 1].type == "COMMENT":
                continue            # a splice after a // comment continues the comment (that is C)
            for s in SPLICES:
                text = base_text[:off] + s + base_text[off:]
                n += 1
                nsp += 1
                tt, exc = toks(text, fname)
                if tt != base:
                    out.append(("tokens", f"splice:{'trigraph' if s[0] == '?' else 'backslash'}:before-{t[i].type}:after-{t[i - 1].type}",
                                f"splice before token {i} {t[i].type} changes the tokens ({exc})", text))
        # two splices
        for (i, off), (j, off2) in list(zip(bounds[::7], bounds[3::7])):
            if t[i - 1].type == "COMMENT" or t[j - 1].type == "COMMENT" or off2 <= off:
                continue
            text = base_text[:off] + SPLICES[0] + base_text[off:off2] + SPLICES[1] + base_text[off2:]
            n += 1
            tt, exc = toks(text, fname)
            if tt != base:
                out.append(("tokens", "splice:two", f"two splices change the tokens ({exc})", text))
    return n, out, len(sites)


def sample_task(task):
    """Worker: one sample input of norminette's own tests, at text level: every respellable one-character punctuator
    token respelled alone (both spellings) and all together, a splice (both forms) before every token; oracle: the
    same (type, value) sequence.  A site is skipped when a neighbouring raw character could fuse with the new spelling."""
    fname, text, step = task
    t, errs, exc = impl.lex(text, fname)
    if t is None:
        return 0, [], 0
    al = lexref.align(text, t, set())
    if not al["ok"]:
        return 0, [], 0
    base = [(x.type, x.value) for x in t]
    spans = al["spans"]
    out = []
    n = 0
    sites = []
    for i, x in enumerate(t):
        a, b = spans[i]
        if x.value is None and b - a == 1 and text[a] in ALT:
            if text[a - 1:a] in ("<", ">", ":", "%", "?", "#", "|", "^", "=") or text[b:b + 1] in ("<", ">", ":", "%", "?", "=", "#"):
                continue
            sites.append((i, a, b, text[a]))
    # single edits are judged on a window of whole lines around the site (cut at NEWLINE tokens, which are token
    # boundaries outside any multi-line token): lexing is context-free at such cuts, and a window is ~100x cheaper
    nl_ends = [spans[k][1] for k, x in enumerate(t) if x.type == "NEWLINE"]

    def window(a, b):
        import bisect
        k = bisect.bisect_right(nl_ends, a)
        lo = nl_ends[k - 2] if k >= 2 else 0
        k2 = bisect.bisect_left(nl_ends, b)
        hi = nl_ends[k2 + 1] if k2 + 1 < len(nl_ends) else len(text)
        return lo, hi

    wcache = {}

    def wbase(lo, hi):
        if (lo, hi) not in wcache:
            wcache[(lo, hi)] = toks(text[lo:hi], fname)[0]
        return wcache[(lo, hi)]

    for (i, a, b, ch) in sites:
        for sp in ALT[ch]:
            lo, hi = window(a, b)
            v = text[:a] + sp + text[b:]
            n += 1
            got, exc = toks(text[lo:a] + sp + text[b:hi], fname)
            if got != wbase(lo, hi):
                out.append(("tokens", f"sample:k1:{x_type(t[i])}:{'digraph' if len(sp) == 2 else 'trigraph'}",
                            f"respelling {ch!r} at offset {a} as {sp!r} changes the tokens ({exc})", v))
    for which in (0, -1):
        parts = []
        last = 0
        for (i, a, b, ch) in sites:
            parts.append(text[last:a] + ALT[ch][which])
            last = b
        parts.append(text[last:])
        v = "".join(parts)
        n += 1
        got, exc = toks(v, fname)
        if sites and got != base:
            out.append(("tokens", f"sample:all:{'digraph' if which == 0 else 'trigraph'}", f"all respelled: tokens differ ({exc})", v))
    for i in range(1, len(t), step):
        if t[i - 1].type == "COMMENT":
            continue
        off = spans[i][0]
        for sp in SPLICES:
            lo, hi = window(off, off)
            v = text[:off] + sp + text[off:]
            n += 1
            got, exc = toks(text[lo:off] + sp + text[off:hi], fname)
            if got != wbase(lo, hi):
                out.append(("tokens", f"sample:splice:{'trigraph' if sp[0] == '?' else 'backslash'}:before-{t[i].type}:after-{t[i - 1].type}",
                            f"splice before token {i} {t[i].type} changes the tokens ({exc})", v))
    return n, out, len(sites)


def x_type(tok):
    return tok.type


# ---------------------------------------------------------------- (b) punctuator sequences

PUNCT = ["{", "}", "[", "]", "#", "|", "||", "|=", "^", "^=", "~", "<", "<<", "<<=", "<=", ">", ">>", ">>=", "%", "%=",
         ":", "?", "-", "->", "--", ".", "...", "&", "&&", "a", "1"]


def seq_task(task):
    """All sequences of length <= L starting with a given first punctuator."""
    first, L = task
    out = []
    n = 0
    for k in range(0, L):
        for rest in itertools.product(PUNCT, repeat=k):
            seq = (first,) + rest
            # join without blanks where that does not change the tokens, else with a blank
            text = seq[0]
            want = toks(seq[0])[0]
            ok = True
            spelled = [seq[0]]
            seps = []
            for s in seq[1:]:
                w2 = toks(s)[0]
                joined, _ = toks(text + s)
                if joined is not None and joined == want + w2:
                    text = text + s
                    seps.append("")
                else:
                    text = text + " " + s
                    seps.append(" ")
                    want = want + [("SPACE", None)]
                want = want + w2
                spelled.append(s)
            base, exc = toks(text)
            n += 1
            if base is None:
                continue
            # every subset of respellable occurrences.  A respelled punctuator is a different lexeme, so it
            # is kept apart from its neighbours by a blank -- in the plain text too (maximal munch and
            # trigraph formation across the boundary are C's behaviour, not the tool's: DESIGN §9)
            occ = [i for i, s in enumerate(spelled) if s in ALT or s in ALT_MULTI]
            for r in range(1, len(occ) + 1):
                for sub in itertools.combinations(occ, r):
                    nalt = max(len(ALT.get(spelled[i]) or ALT_MULTI[spelled[i]]) for i in sub)
                    for which in range(nalt):
                        sp2 = list(spelled)
                        for i in sub:
                            alts = ALT.get(spelled[i]) or ALT_MULTI[spelled[i]]
                            sp2[i] = alts[which % len(alts)]
                        seps2 = list(seps)
                        for i in sub:
                            if i > 0:
                                seps2[i - 1] = " "
                            if i < len(seps2):
                                seps2[i] = " "
                        b2, t2 = spelled[0], sp2[0]
                        for sep, s0, s1 in zip(seps2, spelled[1:], sp2[1:]):
                            b2 += sep + s0
                            t2 += sep + s1
                        want2, _ = toks(b2)
                        got, exc = toks(t2)
                        n += 2
                        if got != want2:
                            out.append(("tokens", f"seq:{'+'.join(sorted({spelled[i] for i in sub}))}",
                                        f"{b2!r} -> {t2!r}: {got} vs {want2}", t2, b2))
            # a splice between any two tokens of the sequence
            for i in range(1, len(spelled)):
                for s in SPLICES:
                    t2 = spelled[0]
                    for j, (sep, sx) in enumerate(zip(seps, spelled[1:]), start=1):
                        t2 += sep + (s if j == i else "") + sx
                    got, exc = toks(t2)
                    n += 1
                    if got != base:
                        out.append(("tokens", f"seq-splice:{spelled[i - 1]}|{spelled[i]}", f"{t2!r}: {got} vs {base}", t2, text))
    return n, out


def run(tier, seed):
    st = explore.Stats()
    failures = []
    cs = carriers.conforming("quick", cap=40 if tier == "quick" else 400)
    vs = carriers.violating("quick", per_op=1 if tier == "quick" else 2)
    tasks = [(c["fname"], c["ftype"], c["pre"], c["lines"], tier, True) for c in cs]
    tasks += [(v["fname"], v["ftype"], v["pre"], v["lines"], tier, True) for v in vs[:: 3 if tier == "quick" else 1]]
    res = explore.pmap(file_task, tasks, chunksize=1)
    nsites = 0
    for t, (n, out, ns) in zip(tasks, res):
        st.runs += n
        nsites += ns
        for item in out:
            kind, label, detail, text = item
            if kind == "HARNESS":
                raise HarnessError(detail)
            failures.append(Failure("C12", f"{kind}:{label}", f"{t[0]}: {detail[:300]}", {"kind": "file", "fname": t[0], "text": text,
                                                                                          "base": norm.render(t[2] + t[3])}))
    from .. import corpus
    smp = [(fn, tx, 1) for fn, tx in corpus.samples()]
    sres = explore.pmap(sample_task, smp, chunksize=2)
    for (fn, tx, _), (n, out, ns) in zip(smp, sres):
        st.runs += n
        nsites += ns
        for kind, label, detail, text in out:
            failures.append(Failure("C12", f"{kind}:{label}", f"{fn}: {detail[:300]}", {"kind": "seq", "fname": fn, "text": text, "base": tx}))
    st.bump("sample_files", len(smp))
    st.bump("carrier_files", len(tasks))
    st.bump("respellable_sites", nsites)
    L = 3 if tier == "quick" else 4
    sres = explore.pmap(seq_task, [(p, L) for p in PUNCT], chunksize=1)
    for n, out in sres:
        st.runs += n
        for kind, label, detail, t2, text in out:
            failures.append(Failure("C12", f"{kind}:{label}", detail[:300], {"kind": "seq", "text": t2, "base": text}))
    # `##` (two adjacent hashes, the pasting operator of a macro body): `%:%:` is its digraph in C, so here the glued
    # respelling is itself a punctuator spelling and must give the same two HASH tokens
    for ctx in ("{}", "a{}b", "#define CAT(a, b) a {} b\n", "a {}b", "x{} y"):
        base, _ = toks(ctx.format("##"))
        for sp in ("%:%:", "??=??=", "%:#", "#%:", "??=#", "#??=", "%:??=", "??=%:"):
            got, exc = toks(ctx.format(sp))
            st.runs += 1
            if got != base:
                failures.append(Failure("C12", f"tokens:hash-hash:{sp}", f"{ctx.format('##')!r} -> {ctx.format(sp)!r}: {got} vs {base}",
                                        {"kind": "seq", "text": ctx.format(sp), "base": ctx.format("##")}))
    st.bump("punctuator_sequences", sum(len(PUNCT) ** k for k in range(1, L + 1)))
    st.states = len(tasks) + sum(len(PUNCT) ** k for k in range(1, L + 1))
    st.transitions = st.runs
    if nsites == 0:
        raise HarnessError("no respellable site in any carrier")
    st.outcomes = set(range(len(tasks)))
    st.sample({"respelling": "{ -> <% / ??<", "file": tasks[0][0]})
    st.sample({"sequence": ["<", ":", ">"], "joined": "< :>"})
    return CheckResult(
        st, failures,
        rule="carrier files: every single respelling, every pair (all pairs / adjacent pairs), every subset for <= 6 sites, "
             "all-respelled; a splice (both forms) at every token boundary; punctuator sequences of length <= 3/4 with every "
             "subset respelled and a splice at every boundary; oracle: identical (type, value) sequences, and for brace/"
             "bracket respellings identical (level, code, line) diagnostics; distinct = carrier files",
        exhaustive=True, bounds={"deviations": "k = 0, 1, 2, all", "sequence_length": L},
        alphabet={"punctuators": len(PUNCT), "spellings": sum(len(v) for v in ALT.values()), "splices": 2},
        assumptions=BASE_ASSUMPTIONS + ["a splice after a // comment is excluded (it continues the comment in C)"],
        distinct=len(tasks),
    )


def replay(payload):
    a, _ = toks(payload["text"], payload.get("fname", "t.c"))
    b, _ = toks(payload["base"], payload.get("fname", "t.c"))
    out = []
    if a != b:
        out.append(Failure("C12", "tokens", "token sequences differ", payload))
    elif payload["kind"] == "file":
        r1 = impl.run_text(payload["fname"], payload["text"])
        r0 = impl.run_text(payload["fname"], payload["base"])
        if sorted((d[0], d[1], d[2]) for d in r1.diags) != sorted((d[0], d[1], d[2]) for d in r0.diags) or (r1.exc is None) != (r0.exc is None):
            out.append(Failure("C12", "diagnostics", "diagnostics differ", payload))
    return out
