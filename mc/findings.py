"""Known findings, violation reporting and replay files (DESIGN §5)."""
from __future__ import annotations

import hashlib
import json
import os

ROOT = os.path.dirname(os.path.dirname(os.path.abspath(__file__)))
KNOWN = os.path.join(ROOT, "known_findings.json")
REPLAYS = os.path.join(ROOT, "replays")


class Failure:
    """One observed violation of a property.

    signature : input-side identification (string), matched against known_findings.json
    what      : one-line human description
    payload   : JSON-serialisable dict sufficient for `python -m mc replay`
    """

    __slots__ = ("prop", "signature", "what", "payload")

    def __init__(self, prop, signature, what, payload):
        self.prop = prop
        self.signature = signature
        self.what = what
        self.payload = payload


def load_known(prop):
    if not os.path.exists(KNOWN):
        return {}
    with open(KNOWN) as f:
        data = json.load(f)
    out = {}
    for e in data.get("findings", []):
        if e.get("property") == prop and e.get("status") == "open":
            out[e["signature"]] = e
    return out


def write_replay(fail):
    d = os.path.join(REPLAYS, fail.prop)
    os.makedirs(d, exist_ok=True)
    body = {
        "property": fail.prop,
        "signature": fail.signature,
        "what": fail.what,
        "payload": fail.payload,
    }
    txt = json.dumps(body, indent=1, sort_keys=True, ensure_ascii=True)
    h = hashlib.sha1(txt.encode()).hexdigest()[:16]
    path = os.path.join(d, h + ".json")
    with open(path, "w") as f:
        f.write(txt + "\n")
    return path


def triage(prop, failures):
    """Split failures into (known: sig -> [Failure], new: sig -> [Failure]) preserving order."""
    known = load_known(prop)
    k, n = {}, {}
    for f in failures:
        (k if f.signature in known else n).setdefault(f.signature, []).append(f)
    return known, k, n
