int	main(void)
{
	x() && y() || z();
	x(), y(), z();
	x(1, 2 && 3)		->x >>= y(1, 3, 4), z("hello") && 3;
	((((int********))))((x()))->back *= x((((int)))(x), 2, 3, 4);
	main = main(main, main, main);
	main->	if = x(("bla", "ble", "bli", "blo", "blu"));
	x = ((&main->x->x()) && x(), 2);
	(x = y->x, x->x)->x = "eita";
	(x)(
		"e se for", "uma string grande",
	)				->		x								=(x)
	;
}
