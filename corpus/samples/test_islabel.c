int	main(void)
{
	dummy(4);
	kikuti();
	return (0);
}

void	dummy(int n)
{
	if (n == 4)
		goto _4;
	if (n == 2) {
		goto _2;
	}
	goto end;
	_4:
	{
		write(1, "4", 1);
	}
	_2:
		write(1, "2", 1);
end:
	write(1, "\n", 1);
bla: return;
blo: printf(
	"NiumXp :D")
	 ; 
ble:(
	printf(
	"NiumXp :D"
	)
	)
;}

void	kikuti(void)
{
	int	i;

	i = 0;
loop:
	if (i < 10)
		goto loop;
	{
		{
		goto calcal;
		calcal:
	}
	while (1)
	{
		goto calcal;
	}
        if (1)
                goto calcal;
	}
}
