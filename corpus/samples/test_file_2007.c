int	philo(int argc, char const *argv[], char *const envp[])
{
	char *str;

	if (argc != 1)
	{
		ft_putstr("\033[0;33mUsage: ./philo number_of_philosophers time_to_die");
		ft_putstr("time_to_eat time_to_sleep [number_of_times_each_philosopher");
		ft_putstr("_must_eat]\033[0m\n");
		ft_putstr("\n\n\n\n\n\n\n\n\n\n\n\n\n\n\n\n\n\n\n\n\n\n\n\n\n\n\n\n\n\n\n\n\n\n\n\n\n\n\n\n\n\n\n\n\n\n\n\n");
		ft_putstr("time_to_eat time_to_sleep [number_of_times_each_philosopher");
	}
	if (c == ' ' & c == '\t' & c == '\n' & c == '\v' & c == '\f' & c == '\r')
		return (1);
	(void) argv;
}
