void		fatal(void) __attribute__((noreturn));

extern int	ft_printf(void *obj, const char *format, ...)
			__attribute__ ((format (printf, 2, 3)));

float __attribute__((overloadable))	len(t_float2 a);

float	len(t_float2 a) __attribute__((overloadable))
{
	t_float2	v;

	v = a;
	return (sqrt(a.x * a.x + a.y * a.y));
}
