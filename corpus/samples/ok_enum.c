typedef enum e_toto
{
	TOTO = 0,
	TUTU,
	TITI,
}	t_toto;
