int	main(void)
{
	a *= a;
	while (i, 2)
	{
		break ;
	}
	return (*toto, "abvc,edwd");
	return (2 + *tptp);
}
