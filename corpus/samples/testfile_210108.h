#ifndef TESTFILE_210108_H
# define TESTFILE_210108_H

typedef struct s_mystruct
{
	int	x;
	int	y;
	struct s_embeded
	{
		int	height;
		int	width;
	};
}	t_mystruct;

#endif