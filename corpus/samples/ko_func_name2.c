int	main	(void)
{
	return (42);
}

int	main (void)
{
	return (21);
}

int main (void)
{
    int array[] = {1, 2, 3, 4, 5};

    return (0);
}

int _1 a b c(void)
{
	return ;
}
