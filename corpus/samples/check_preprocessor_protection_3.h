#ifndef CHECK_PREPROCESSOR_PROTECTION_3_H
// No #define
#endif

// Just to check that the #define is not added
#define CHECK_PREPROCESSOR_PROTECTION_3_H
