void	*main(void *i);
int	(*fpfunc)(int x, int y);
result = (*fpcomparer)(a, a * *b);