struct foo {
	int x, y;
};

struct lots_of_inits {
	struct foo z[2];
	int w[3];
};

struct lots_of_inits init = {
	{{1, 2}, {3, 4}}, {5, 6, 7}
};

struct lots_of_inits flat_init = {
	1, 2, 3, 4, 5, 6, 7
};
