#define LENGTH 8
typedef char	t_word[8];
typedef char	t_word[LENGTH];

typedef void	(*t_func_definiton)(toto arg);