typedef struct t_toto	s_toto;
union u_toto			u_var;
int						s_int;

typedef struct toto {
	struct v_toto		ba;
	union s_toto		b;
	typedef union test	s_test;
	enum g_toto			vv;
}	u_struct;

typedef struct test
{
	int	_42;
}t_boom;

int	main(void)
{
	return (0);
}
