
void	ft_calculation_size_nbr(int *size_nbr, char *nbr, t_all *all)
{
	(void)(*size_nbr)--;
}