#ifndef TESTFILE_210104_H
# define TESTFILE_210104_H

struct			s_dict
{
	size_t		size;
};

int				ft_hash(char *str);
struct s_dict	*ft_hash_table_create(size_t size);

# define FOUR (2 << 1)
# define FTFLOAT 0x42f

#endif

// issue 11, 12 (partly)
