int	main(void)
{
	int		a;
	int		b;

	(a = 4) && (b = 6);
}

#include <stdio.h>

int	main(void)
{
	int	a;

	(a = 0, printf("%d\n", a));
	return (0);
}

int	v(int *restrict t)
{
	const char	*restrict s = "Hello World";

	printf("%s\n", s), a = 15;
	return (0);
}

int	main(void)
{
	int	a;

	a = 0, printf("%d\n", a);
	return (0);
}

int	main(void)
{
	a = (FLOAT)-0.5f;
	a = (FLOAT)+0.5f;
	a = (FLOAT)0.5f;
	a = (float)-0.5f;
	a = (float)+0.5f;
	a = (float)0.5f;
	a = (FLOAT)a;
	a = (float)a;
}

__attribute__((warn_unused_result)) int	main(int argc, char **argv)
{
	printf("Hello, world!\n");
}

void	*xmalloc(size_t size) __attribute__((malloc)) __attribute__((warn_unused_result));

int	main(void)
{
	a = ({4;});
}

void	draw_player(t_env *env)
{
	env->p->f_x += (env->p->x - env->p->f_x) * 0.5;
	env->p->f_y += (env->p->y - env->p->f_y) * 0.5;
	draw_on_image(env->main_img, env->p->img, ((int)(env->p->f_y) * 64), ((int)(env->p->f_x) * 64));
}

void	draw_player(t_env *env)
{
	env->p->f_x += (env->p->x - env->p->f_x) * 0.5;
	env->p->f_y += (env->p->y - env->p->f_y) * 0.5;
	draw_on_image(env->main_img, env->p->img, ((int)(env->p->f_y) * 64), ((int)(env->p->f_x) * 64));
}

int	main(void)
{
	t_int * restrict a = NULL;
	t_int * restrict b = 1;
	t_int * restrict c = 1;
	t_int * restrict d = 1;
	t_int * restrict e = 1;
	t_int * restrict f = 1;
}

int	(*open_pipe(int nb_of_cmd))[2]
{
	int		i;
	t_pipe	pipe_fd;

	pipe_fd = malloc(sizeof(int [2]) * (nb_of_cmd - 1));
	if (error_catch(pipe_fd == 0, "system", "fail to malloc pipe table"))
		return (NULL);
	i = 0;
	while (i < nb_of_cmd - 1)
	{
		if (error_catch(pipe(pipe_fd[i++]) == -1, "system",
				"fail to open pipe"))
		{
			while (--i)
			{
				close(pipe_fd[i][0]);
				close(pipe_fd[i][1]);
			}
			free(pipe_fd);
			return (NULL);
		}
	}
	return (pipe_fd);
}
