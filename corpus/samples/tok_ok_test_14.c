typedef int empty_array_t[0];
typedef struct {} empty_struct_t;
typedef int array_t[10];
typedef struct { int f; } struct_t;
typedef float vector_t __attribute__((ext_vector_type(4)));

empty_array_t ea = {};
empty_struct_t es = {};
array_t a = {};
struct_t s = {};
vector_t v = {};
void* p = {};
int i = {};

empty_array_t eaa = {0};
empty_struct_t ess = {0};
array_t aa = {0};
struct_t bb = {0};
vector_t cc = {0};
void* dd = {0};
int ee = {0};
