#ifndef FT_EXAMPLE_H
# define FT_EXAMPLE_H

void	ft_foobar(
			char really_long_variable_name_for_the_purposes_of_this_example,
			char the_second_one_wouldent_fit_on_the_same_line
			);

#endif