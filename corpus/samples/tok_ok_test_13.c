struct flex {
	int count;
	int elems[];
};

struct flex f = {
	.count = 3,
	.elems = {32, 31, 30}
};

_Static_assert(sizeof(struct flex) == sizeof(int), "");
_Static_assert(sizeof(f) == sizeof(struct flex), "");

struct flex g[2];
