/*\*/

int main() {
	int a = 1;
}

/**/
