int	main(void)
{
	x = ((int)x) * x;
}
