int	main(void)
{
	return (void *) 0;
	return (int) var_name;
	return (var1) + var2;
	return (void *)(var_name);
	return (int) var1 + 2;
	return ((void *) 0);
	return ((int) var_name);
	return ((var1) + var2);
	return ((void *)(var_name));
	return ((int) var1 + 2);
}
