short typedef signed s16;
unsigned int typedef u32;
struct foo { int bar; } const typedef baz;

s16 a;
u32 b;
baz c;
