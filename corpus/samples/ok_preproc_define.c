#define TOTO "TATA"
#define PRINTF       "printf"
#define TOTO 12
