/* *\
/

#include <stdio.h>

int main() {
  for (int i=0; i<2;++i)
    printf("%d\n", i);
}

/**/