int	func(void);

int	func2(void)
{
	return (1);
}

typedef struct s_sTRuct	t_Struct;
struct					s_sTRuct;

int						g_glOb;

int	Main(void)
{
	char		*sTr;
	int			TAB;
	size_T		val;
	t_Struct	val;

	return ;
}
