int		main(int argc, char *argv[])
{
	int				cc;
	struct termios 	rtt, stt;
	struct winsize	win;
	struct timeval	tv, *tvp;
	time_t			tvec, start;
	char			obuf[BUFSIZ];
	char			ibuf[BUFSIZ];
	fd_set			rfd;
	int				aflg, Fflg, kflg, pflg, ch, k, n;
	int				flushtime, readstdin;
	int				fm_fd, fm_log;

	aflg = Fflg = kflg = pflg = 0;
	usesleep = 1;
	rawout = 0;
	flushtime = 30;
	fm_fd = -1;	/* Shut up stupid "may be used uninitialized" GCC
				warning. (not needed w/clang) */
	showexit = 0;

	while ((ch = getopt(argc, argv, "adFkpqrt:")) != -1)
		switch(ch) {
			case 'a':
				aflg = 1;
				break;
			case 'd':
				usesleep = 0;
				break;
			case 'F':
				Fflg = 1;
				break;
			case 'k':
				kflg = 1;
				break;
			case 'p':
				pflg = 1;
				break;
			case 'q':
				qflg = 1;
				break;
			case 'r':
				rawout = 1;
				break;
			case 't':
				flushtime = ft_atoi(optarg);
				if (flushtime < 0)
					ft_err(1, "invalid flush time");
				break;
			case '?':
			default:
				usage();
		}
	argc -= optind;
	argv += optind;

	if (argc > 0)
	{
		fname = argv[0];
		argv++;
		argc--;
	} else
		fname = "typescript";
	int		flopen = pflg ? O_RDONLY : aflg ? O_CREAT|O_RDWR|O_APPEND : O_CREAT|O_RDWR|O_TRUNC;
	if ((fdscript = open(fname, flopen, OPEN_MODE)) == -1)
		ft_err(1, fname);

	/*if (pflg)
		playback(fscript);*/

	if ((ttyflg = pty_isatty(STDIN_FILENO)) != 0) {
		if (ioctl(STDIN_FILENO, TIOCGETA, &tt) == -1)
			ft_err(1, "tcgetattr");
		if (ioctl(STDIN_FILENO, TIOCGWINSZ, &win) == -1)
			ft_err(1, "ioctl");
		if (pty_open(&master, &slave, NULL, &tt, &win) == -1)
			ft_err(1, "openpty");
	} else {
		if (pty_open(&master, &slave, NULL, NULL, NULL) == -1)
			ft_err(1, "openpty");
	}

	if (rawout)
		record(fdscript, NULL, 0, 's');

	if (!qflg)
	{
		tvec = time(NULL);
		(void)ft_putstr("Script started, output file is ");
		(void)ft_putendl(fname);
		// (void)printf("Script started, output file is %s\n", fname);
		if (!rawout) {
			(void)ft_putstr_fd("Script started on ", fdscript);
			(void)ft_putstr_fd(ctime(&tvec), fdscript);
			// (void)fprintf(fscript, "Script started on %s", ctime(&tvec));
			if (argv[0]) {
				showexit = 1;
				(void)ft_putstr_fd("Command:", fdscript);
				for (k = 0 ; argv[k] ; ++k) {
					(void)ft_putstr_fd(" ", fdscript);
					(void)ft_putstr_fd(argv[k], fdscript);
				}
				(void)ft_putstr_fd("\n", fdscript);
			}
		}
		fsync(fdscript);
	}
	if (ttyflg)
	{
		rtt = tt;
		pty_cfmakeraw(&rtt);
		rtt.c_lflag &= ~ECHO;
		(void)ioctl(STDIN_FILENO, TIOCSETAF, &rtt);
	}

	child = fork();
	if (child < 0) {
		(void)ft_putstr_fd("fork", STDERR_FILENO);
		done(1);
	}
	if (child == 0)
	{
		doshell(argv);
	}
	close(slave);

	start = tvec = time(0);
	readstdin = 1;
	while (42)
	{
		FD_ZERO(&rfd);
		FD_SET(master, &rfd);
		if (readstdin)
			FD_SET(STDIN_FILENO, &rfd);
		if (!readstdin && ttyflg)
		{
			tv.tv_sec = 1;
			tv.tv_usec = 0;
			tvp = &tv;
			readstdin = 1;
		}
		else if (flushtime > 0)
		{
			tv.tv_sec = flushtime - (tvec - start);
			tv.tv_usec = 0;
			tvp = &tv;
		}
		else
		{
			tvp = NULL;
		}
		n = select(master + 1, &rfd, 0, 0, tvp);
		if (n < 0 && errno != EINTR)
			break;
		if (n > 0 && FD_ISSET(STDIN_FILENO, &rfd)) {
			cc = read(STDIN_FILENO, ibuf, BUFSIZ);
			if (cc < 0)
				break;
			if (cc == 0)
			{
				if (ioctl(STDIN_FILENO, TIOCGETA, &stt) == 0 && (stt.c_lflag & ICANON) != 0)
				{
					(void)write(master, &stt.c_cc[VEOF], 1);
				}
				readstdin = 0;
			}
			if (cc > 0) {
				if (rawout)
					record(fdscript, ibuf, cc, 'i');
				(void)write(master, ibuf, cc);
				if (kflg && ioctl(STDIN_FILENO, TIOCGETA, &stt) >= 0 && ((stt.c_lflag & ECHO) == 0))
				{
					(void)write(fdscript, ibuf, cc);
				}
			}
		}
		if (n > 0 && FD_ISSET(master, &rfd))
		{
			cc = read(master, obuf, sizeof (obuf));
			if (cc <= 0)
				break;
			(void)write(STDOUT_FILENO, obuf, cc);
			if (rawout)
				record(fdscript, obuf, cc, 'o');
			else
				(void)write(fdscript, obuf, cc);
		}
		tvec = time(0);
		if (tvec - start >= flushtime)
		{
			fsync(fdscript);
			start = tvec;
		}
		if (Fflg)
			fsync(fdscript);
	}
	finish();
	done(0);
	return (0);
}