int	main(void)
{
	while (1)
		return ;
	break ;
}
