//issue 13

int	main(void)
{
	char	*p;
	int		n;

	n = 2;
	p = malloc((1) * sizeof(*p));
	p = malloc((n + 1) * sizeof(*p));
	return (0);
}

int	main(void)
{
	char	*p;
	int		n;

	n = 2;
	p = malloc((1) *sizeof(*p));
	p = malloc((n + 1) *sizeof(*p));
	return (0);
}
