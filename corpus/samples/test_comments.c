struct {
	// points is to something
	int	points; // is an int :D
};

typedef /* oopss */ bool bool;

enum test {
    // blaboe
    hello,  // it works
    /* error*/ error
};

void hello(/* nothing */ void) // error because comment is in middle of the line
{
   // error because scope is from a function
   {
      // are you trying to cheat?
      // error because scope is from a function
   }
}
