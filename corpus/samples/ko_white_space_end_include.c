#include "libft.h"	
#include "libft.h" 

void	main(void)
{	
	int	i;

	i = 0;
} 
