/* ************************************************************************** */
/*                                                                            */
/*                                                        :::      ::::::::   */
/*   hud.c                                              :+:      :+:    :+:   */
/*                                                    +:+ +:+         +:+     */
/*   By: vgauther <vgauther@student.42.fr>          +#+  +:+       +#+        */
/*                                                +#+#+#+#+#+   +#+           */
/*   Created: 2018/03/29 13:47:14 by vgauther          #+#    #+#             */
/*   Updated: 2018/05/02 21:16:08 by vgauther         ###   ########.fr       */
/*                                                                            */
/* ************************************************************************** */

#include "../includes/rt.h"

void	call_blocs(t_env *e, t_sdl *s)
{
	bloc_logo(s);
	bloc_lux(s, e);
	bloc_camera(e, s);
	bloc_save(e, s);
	bloc_credits(e, s);
	bloc_multiplier(e, s);
	bloc_work_space(e, s);
}

void	some_traits(t_env *e)
{
	t_vec	p1;
	t_vec	p2;

	p1 = init_point_2_coord(SIZE_X / 4 - 10, 0);
	p2 = init_point_2_coord(SIZE_X / 4 - 10, SIZE_Y / 8);
	vertical_trait(p1, p2, CONTRAST, e);
	p1 = init_point_2_coord(SIZE_X / 4 + SIZE_X + 9, SIZE_Y);
	p2 = init_point_2_coord(SIZE_X / 4 + SIZE_X + 9, WIN_Y);
	vertical_trait(p1, p2, CONTRAST, e);
	p1 = init_point_2_coord(SIZE_X / 1.45, 0);
	p2 = init_point_2_coord(SIZE_X / 1.45, WIN_Y / 8);
	vertical_trait(p1, p2, CONTRAST, e);
}

/*
** plus / mois pour le rayon = plmor
*/

void	init_plmor(t_sdl *s)
{
	s->hud1.plmor[0].rect = init_sdl_rect(WIN_X
			- COL + 80, WIN_Y / 2 + 115, 50, 30);
	s->hud1.plmor[1].rect = init_sdl_rect(WIN_X
			- COL + 140, WIN_Y / 2 + 115, 30, 30);
	s->hud1.plmor[2].rect = init_sdl_rect(WIN_X
			- COL + 175, WIN_Y / 2 + 115, 30, 30);
	s->hud1.plmor[0].i = 31;
	s->hud1.plmor[1].i = 1;
	s->hud1.plmor[2].i = 0;
	s->hud1.add_obj_data[6].rect = init_sdl_rect(WIN_X
			- COL + 80, WIN_Y / 2 + 115, 50, 30);
}

/*
** initialisation du tableau de travail et de la couleur du fond
*/

void	init_background(t_sdl *s, t_env *e)
{
	t_rect	r1;

	s->hud1.shape_img.rect = init_sdl_rect(SIZE_X / 4 + SIZE_X + (SIZE_X
				/ 4 / 8), SIZE_Y / 8 + SIZE_Y / 16, SIZE_X / 5, SIZE_X / 5);
	e->hud = (Uint32*)malloc(sizeof(Uint32) * WIN_X * WIN_Y);
	if (!e->hud)
		ft_error("MALLOC ERROR");
	r1 = init_rect(0, 0, WIN_X, WIN_Y);
	print_rect(r1, e, 1, COLOR_BACK);
}

void	hud_init(t_sdl *s, t_env *e)
{
	t_rect	r1;

	init_font(s);
	init_color_text(s);
	create_bouton_cam(s);
	init_info_messages(s);
	create_bouton_tool_bar(s);
	init_add_obj_text_box(s);
	init_add_obj_selection_rect(s);
	init_color_selector(s);
	init_plmor(s);
	init_background(s, e);
	r1 = init_rect(SIZE_X / 4 - 10, SIZE_Y / 8 - 10, SIZE_X + 20, SIZE_Y + 20);
	print_rect(r1, e, 1, CONTRAST);
	call_blocs(e, s);
	some_traits(e);
	actualize_background(s, e);
	print_text(ft_strdup(s->hud1.mess[0]), s->font.color[4], s, &s->hud1.info);
	s->hud1.info.rect = init_sdl_rect(COL4 + 28, (WIN_Y / 14) * 13.4, 500, 25);
}
