int	main(void)
{
	int					dec_int = 28;
	unsigned int		dec_uint = 4000000024u;
	long				dec_long = 2000000022l;
	unsigned long		dec_ulong = 4000000000ul;
	long long			dec_llong = 9000000000LL;
	unsigned long long	dec_ullong = 900000000001ull;
	__int64				dec_i64 = 9000000000002I64;
	unsigned __int64	dec_ui64 = 90000000000004ui64;
	int					oct_int = 024;
	unsigned int		oct_uint = 04000000024u;
	long				oct_long = 02000000022l;
	unsigned long		oct_ulong = 04000000000UL;
	long long			oct_llong = 044000000000000ll;
	unsigned long long	oct_ullong = 044400000000000001Ull;
	__int64				oct_i64 = 04444000000000000002i64;
	unsigned __int64	oct_ui64 = 04444000000000000004uI64;
	int					hex_int = 0x2a;
	unsigned int		hex_uint = 0XA0000024u;
	long				hex_long = 0x20000022l;
	unsigned long		hex_ulong = 0XA0000021uL;
	long long			hex_llong = 0x8a000000000000ll;
	unsigned long long	hex_ullong = 0x8A40000000000010uLL;
	__int64				hex_i64 = 0x4a44000000000020I64;
	unsigned __int64	hex_ui64 = 0x8a44000000000040Ui64;
}

int	main(long long i, long long int j, long int k, short short l, short short int m, short int n, long o, short p)
{
	long long		i;
	long long int	j;
	long int		k;
	short short		l;
	short short int	m;
	short int		n;
	long			o;
	short			p;
}

