int	main(void)
{
	int		i;

	i = i.c;
	v = v->v;
	while (v->c)
		if (c.v != 0)
			i->c->i += 1;
	i->c = i->c * i->(*d);
}
