int			(*f2(void))(int);
int			(*g_fp(int));
int			(*g_v)(int a);
int			(*g_f)(int a, float b);
typedef int	(*t_funcptr)(void);
typedef int	(*t_funcptr)(); //doesnt work

int	main(void)
{
	(*func_pointer)(arg1, arg2);
}
