#define toto f(x)
#define A AB+AB
#define PRINTF printf()
#define PRINTF printf
#define TOTO TATA 12
 #define TOTo TATa