int	main(void)
{
	if (pthread_create(&philos[i].philo_status_thread, NULL, \
		check_status, &philos[i]))
		return (-1);
	printf("\nOh noes. I, n°%i, no longer thinks, and therefore, is no more.\
	*dies in philosopher*\n", this->uid);
}

int	main(void)
{
	if ((-(cy->height * 0.5)) < z[0] && z[0] < ((cy->height * 0.5)))
		return ;
}
