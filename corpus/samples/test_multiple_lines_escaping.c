//\
\ ola \
\ ola \
\ ola \
   \
   \
   \
\
\
\
\
oxi \
eita
