#ifndef OK_PROTECTION_H
# define OK_PROTECTION_H
# define TOTO "tata"

void	main(void);
int	g_toto;

v = 0;
#endif
