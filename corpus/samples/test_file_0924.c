void ft_hexdump(char **files, int argc, int i){
	while (i < argc)
	{
		if (argc > 2)
			{if ((fd = open(files[i], O_RDONLY)) == -1)
			return ;}
	}
}

