void	test(void)
{
	int	i;
	int	(*f)(const t_module *m, char ***p_options);

	(void)i;
	(void)f;
}

void	test(void)
{
	int	i;
	int	x;

	int	(*f)(const t_module * m, char ***p_options
			, int *has_options);
	(void)i;
	(void)f;
}

void	test(void)
{
	int	i;
	int	x;

	int (*f)(const int *m, char ***p_options);
	(void)i;
	(void)f;
}
