t_test_struct	test(void)
{
	static const t_test_struct	s = ((t_test_struct)
		{
			.value = 42
		});

	return ((t_test_struct)
		(
			.value = 42
		));
}
