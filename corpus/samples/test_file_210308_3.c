#ifndef BUFFER_SIZE
# warning no BUFFER_SIZE specified, defaulting to 32
# define BUFFER_SIZE 32
#elif BUFFER_SIZE <= 0
# warning BUFFER_SIZE <= 0, defaulting to 32
# undef BUFFER_SIZE
# define BUFFER_SIZE 32
#endif