int	main(void)
{
	if (!((*array)[i] = test((test + 1))))
		return (NULL);
}
