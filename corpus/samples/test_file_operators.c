int	main(void)
{
	int				a;
	unsigned int	b[1];

	a = -10;
	*b = (unsigned int)-a;
	return (0);
}
