typedef struct s_struct
{
	int	a;
	int	b;
}	t_struct;

typedef struct s_struct	t_struct;

struct s_type
{
	int	a;
};

int	main(void)
{
	struct s_type	toto;
}
