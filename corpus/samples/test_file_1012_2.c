/* ************************************************************************** */
/*                                                                            */
/*                                                        :::      ::::::::   */
/*   hud_bloc_credits_save_logo_cam.c                   :+:      :+:    :+:   */
/*                                                    +:+ +:+         +:+     */
/*   By: vgauther <vgauther@student.42.fr>          +#+  +:+       +#+        */
/*                                                +#+#+#+#+#+   +#+           */
/*   Created: 2018/04/23 19:10:36 by vgauther          #+#    #+#             */
/*   Updated: 2018/04/28 22:34:56 by vgauther         ###   ########.fr       */
/*                                                                            */
/* ************************************************************************** */

#include "../includes/rt.h"

void	bloc_camera(t_env *e, t_sdl *s)
{
	t_rect	r1;

	r1 = init_rect(WIN_X / 100, SIZE_Y / 3, COL4 - (WIN_X / 50) - 10,
			SIZE_Y / 3);
	empty_rect(r1, e, 1, CONTRAST);
	r1 = init_rect(WIN_X / 100 + ((COL4 - (WIN_X / 50) - 10) / 8),
			(SIZE_Y / 3) - 2, ((SIZE_X / 4 - (WIN_X / 50) - 10) / 8) * 6, 4);
	print_rect(r1, e, 1, COLOR_BACK);
	(void)s;
}

void	bloc_logo(t_sdl *s)
{
	SDL_Surface	*surf;

	surf = SDL_LoadBMP("./img_srcs/rtl.bmp");
	s->hud1.logo.rect = init_sdl_rect(2, 0, COL4 - (WIN_X / 100),
			SIZE_Y / 4);
	s->hud1.logo.tex = SDL_CreateTextureFromSurface(s->renderer, surf);
	if ((s->hud1.logo.tex) == NULL)
		ft_sdl_error("Texture error : ", SDL_GetError());
	SDL_FreeSurface(surf);
}

void	bloc_credits(t_env *e, t_sdl *s)
{
	t_vec	p1;
	t_vec	p2;

	print_text(ft_strdup("Credits"), s->font.color[4], s,
	&s->hud1.credits.title);
	s->hud1.credits.title.rect = init_sdl_rect(COL4 / 2 - 40,
			SIZE_Y + LINE - 5, 50, 20);
	print_text(ft_strdup("ebertin/fde-souz/ppetit/vgauther"), s->font.color[4],
	s, &s->hud1.credits.names);
	s->hud1.credits.names.rect = init_sdl_rect(7, SIZE_Y + SIZE_Y / 6, 230, 18);
	p1 = init_point_2_coord(0, WIN_Y / 8 * 7);
	p2 = init_point_2_coord(COL4, WIN_Y / 8 * 7);
	horizontal_trait(p1, p2, CONTRAST, e);
	p1 = init_point_2_coord(COL4 - 10, SIZE_Y);
	p2 = init_point_2_coord(COL4 - 10, WIN_Y);
	vertical_trait(p1, p2, CONTRAST, e);
	ornement(s->hud1.credits.title.rect, CONTRAST, 20, e);
}

void	bloc_save(t_env *e, t_sdl *s)
{
	t_vec		p1;
	t_vec		p2;
	t_rect		r1;

	p1 = init_point_2_coord(COL + SIZE_X, 0);
	p2 = init_point_2_coord(COL + SIZE_X, SIZE_Y / 8);
	vertical_trait(p1, p2, CONTRAST, e);
	p1 = init_point_2_coord(COL4 + (SIZE_X / 6) * 5 - 5, 0);
	p2 = init_point_2_coord(COL4 + (SIZE_X / 6) * 5 - 5, SIZE_Y / 8);
	vertical_trait(p1, p2, CONTRAST, e);
	r1 = init_rect(COL4 + (SIZE_X / 6) * 5 + (SIZE_X / 6 + 10) / 6,
			SIZE_Y / 17, (SIZE_X / 6 + 10) / 3 * 2, SIZE_Y / 50);
	print_rect(r1, e, 1, CONTRAST);
	print_text(ft_strdup("Save"), s->font.color[4], s, &s->hud1.save);
	s->hud1.save.rect = init_sdl_rect(COL4 + (SIZE_X / 6) * 5
			+ (SIZE_X / 6 + 10) / 8, SIZE_Y / 80,
			((SIZE_X / 6 + 10) / 4) * 3, 15);
	ornement(s->hud1.save.rect, CONTRAST, 15, e);
}
