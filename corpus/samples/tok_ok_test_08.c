class foo {
	int x;

public:
	foo();
};

foo::foo() : x(({ a: 4; })) {
	goto a;
}
