int	BAD_funcname1(void);
int	bad_funcName2(void);
int	B(void);
