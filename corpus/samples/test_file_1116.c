t_queue	*dequeue(t_queue **head)
{
	t_queue	*first;

	tvp = &tv;
	first = *head;
}
