void	read_config(t_list **lights, t_gui gui){}
