struct foo {
	int bar;
};

void baz() {
	(struct foo){};

	((struct foo){}).bar = 4;
	&(struct foo){};
}
