#include <stdio.h>
#ifndef FOO
#define FOO /*
With multi line comment

*/
#undef FOO //With a comment behind
#define FOO 42
#endif

int main() {
	printf("bar");#define THIS_IS_NO_CORRECT_C_BUT_SHOULD_BE_CAUGHT
}
