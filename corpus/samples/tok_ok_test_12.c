void foo(int p, char* complicated) {
	switch (p) {
	case 0:
		if (complicated[0] == 'a') {
			if (complicated[1] == 'b') {
	case 1:
		complicated[2] = 'c';
			}
		}
		break;
	}
}
