int	main(void)
{
	int	i;

	i = 0;
}
	