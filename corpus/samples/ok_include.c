#include <stdio.h>
#include "main.h"

#include <main.h>