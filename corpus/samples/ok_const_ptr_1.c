int	func(void)
{
	int const							*var = 0;
	const int							*var = 0;
	t_obj const							*var = 0;
	int *const *const *const *const		var = 0;
	int **const							var = 0;
	int const *const **const			var = 0;
	const t_obj							*var = 0;
	t_obj *const *const *const *const	var = 0;
	t_obj **const						var = 0;
	t_obj const *const **const			var = 0;
}
