int	(foo(int a))
{
	if (1)
		{
					
}
	return (1);
}

short int a() { return 1; }

int (faa)(int *a(int), char b, int c, int r)
{
	return 1;
}

#include <stdlib.h>
int	*truc()
{
	return malloc(sizeof(int));
}

int (*f2(void))(int) {
	return foo; }

int	((*((((bar)(int a))))))(int)
{
	return (foo);
}

int	(*(f)(char a, int t, int b))(int) { return foo;}

int	(*fp(int)); //Function pointer, NOT FUNC!
int	((*(fp2))(int a));

//int ((*T)(int))(int);

int ((*f23(int))) ;
int (*fff[1])(void);
enum Bla {
	A,
	B
};

enum Bla	func(void);
unsigned enum Bla	func(void);
long long enum Bla	func(void);
enum long long Bla	func(void);
enum long long Bla	func(void);
 Bla	func(void);
youpi	func2(void);
trololo43 const	func3(youpibanane cahuete);
trololo43	func3(youpibanane);
trololo43	func3(cahuete);
trololo43	func3(youpibanane	cahuete);
trololo43	func3(youpibanane cahuete, lol choupette);
trololo43	func3(youpibanane cahuete, lol  choupette);
trololo43	func3(youpibanane cahuete,lol choupette);
trololo43	func3(youpibanane cahuete, lol ***choupette);
trololo43	func3(youpibanane cahuete, lol * choupette);
trololo43	func3(youpibanane **cahuete, lol*** **choupette);
trololo	trololol	func4(uopi sks);
***func4(udidf fdfd);
