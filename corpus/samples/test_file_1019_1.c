#ifndef TEST_H
# define TEST_H

typedef struct s_lst	t_lst;
struct		s_lst
{
	void	*data;
	t_lst	*next;
};

int	main(void)
{
	write (1, "test\n", 5);
	return (0);
}
