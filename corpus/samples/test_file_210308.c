void	test1(void)
{
}
/**
 * test
 */

void	test2(void)
{
}

/**
 * test
 */

void	test2(void)
{
}

/**
 * test
 */
void	test2(void)
{
}
/**
 * test
 */
void	test2(void)
{
}
#define TOTO 2
void	test2(void)
{
}
