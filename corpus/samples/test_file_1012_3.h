/* ************************************************************************** */
/*                                                                            */
/*                                                        :::      ::::::::   */
/*   envvar.h                                           :+:      :+:    :+:   */
/*                                                    +:+ +:+         +:+     */
/*   By: abaur <abaur@student.42.fr>                +#+  +:+       +#+        */
/*                                                +#+#+#+#+#+   +#+           */
/*   Created: 2020/10/07 13:51:00 by abaur             #+#    #+#             */
/*   Updated: 2020/10/07 13:51:00 by abaur            ###   ########.fr       */
/*                                                                            */
/* ************************************************************************** */

#ifndef TEST_FILE_1012_3_H
# define TEST_FILE_1012_3_H

# include "../dynarray/dynarray.h"

t_dynarray	g_envarray;

/*
** Duplicates the provided array to initialize the environnement.
** @param char** environ	An array of strings that will be used as environnem
** ent variables. These are not checked for invalid syntax.
** @param char**	The resulting environnement, or NULL in case of error.
*/

char		**envvarinit(char **environ);

/*
** Frees all the internal pointers of the environnement.
*/

void		envvardeinit(void);

/*
** Fetches the value of an environnement variable.
** @param const char* name	The name of the variable.
** @return char*	An allocated copy of the variable's value.
*/

char		*get_env_var(const char *name);

/*
** Sets an environnement variable.
** @param char* value 	A string formated as "name=value".
** 	This string is NOT checked for invalid syntax.
** 	This exact pointer is stored internally, and should notbe modified or freed
**  afterward.
** @return bool
** 	true 	OK;
** 	false 	Error;
*/

short		set_env_var_raw(char *value);

/*
** Sets an environnement variable.
** @param const char* name	The name of the variable to set.
** 	This name is NOT checked for invalid caracters, except for '='.
** @param const char* value	The value to set.
** return bool
** 	true 	OK
** 	false	Error
*/

short		set_env_var(const char *name, const char *value);

/*
** Checks the validity of an environnement variable's name.
** The special name '?' is considered valid.
** @param const char* name	The name to validate
** @return char*	A pointer to the first invalid character, else a pointer to
**  the null terminator.
*/

char		*validate_var_name(const char *name);

#endif