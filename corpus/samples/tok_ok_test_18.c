struct bitfield {
	unsigned x: 3;
};

void foo() {
	int a[2];
	int i;
	const int j;
	struct bitfield bf;

	a; 
	i; 
	j; 
	bf.x;

	foo; 
	i = 4;
	bf.x = 4;

	&a;
	&i;
	&j;
	&foo;
}
