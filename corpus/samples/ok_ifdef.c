#ifdef SF_DEBUG_MALLOC
void	*sf_malloc_impl_debug(sf_ulong size)
#else
void	*sf_malloc_impl(sf_ulong size, sf_malloc_type_t type)
#endif
{
	return (0);
}
