int	a(int a)
{
	return (a);
}

int	main(void)
{
	return a(0);
}

struct s_a
{
	char	jklsfdsk;
	union
	{
		int		a;
		char	b;
	};
};

int	main(void)
{
	return (0);
}

int	main(int argc, char **argv)
{
	int	BLEH;
	int	vla[2 + BLEH + 2];

	(void) argv;
	return (0);
}

(void/* fkdslkdjfdsjl */) argc;

int	main(void)
{
	int	a;

	(void/* fkdslkdjfdsjl */) argc;
	(void/* fkdslkdjfdsjl */) argv;
	return (0);
}

int	main(void)
{
	int	a;

	goto a;
	printf("meh");
	a : printf(":ah:");
	return (0);
}

int	main(int argc, char **argv)
{
	const char	*a;

	(void) argc;
	(void) argv;
	a = "kfldfksjldfkjskl"/* random comment */"jlsfkdfjdsldf";
	return (0);
}

int	main(int argc, char **argv)
{
	(void) argc;
	(void) argv;
	return (0/* Hello world! */);
}

int	main(void)	
{
	return (0);
}

int	main(void)	
{	
	return (0);
}	
