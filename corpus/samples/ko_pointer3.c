int	main(void) {
	int	***	*	a;
	int			b;	if 					(5 * 		 *** a)
		b = 		 	12;
}

int	main(void) {
	int	***	*	a;
	int			b;	if 					(5 * 		 ***a)
		b = 		 	12;
}

int	main(void) {
	int	***	*	a;
	int			b;	a = b * (*(*(*(*a) ) ) );
	(*a 	 					) = b * 				a;
}

int	main(void) {
	int	toto tata
	*	 * * *	a;
	int			b;
}