#define ICE_P(x) (sizeof(int) == sizeof(*(1 ? ((void*)((x) * 0l)) : (int*)1)))

int is_a_constant = ICE_P(4);
int is_not_a_constant = ICE_P(is_a_constant);
