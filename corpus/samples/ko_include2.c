#include"libft.h"
#include	"libft.h"
#include		"libft.h"
#include<unistd.h>
#include	<unistd.h>
#include		<unistd.h>
