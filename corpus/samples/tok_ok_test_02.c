int	main(void)
{
	int a = + - +-+-+42+-24;
	int	b = --a-+15;
	int		 c = -+-(42 * 4 + *(&a));
}
