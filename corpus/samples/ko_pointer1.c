int	main(void) {
	int	*** *a;
}

int	main(void) {
	int	***	*	a;
	int			b;	a = b * (*(*(*(*a) ) ) );
}

int	main(void) {
	int	***	*	a;
	int			b;	b &= **(++**a);
}

int	main(void) {
	int	***	*	a;
	int			b;	b &= ****a++;
}

int	main(void) {
	int	***	*	a;
	int			b;	b &= --****a;
}