int	main(void) {
	int	***	*	a;
	int			b;	a &= ***b;
}

int	main(void) {
	int	***	*	a;
	int			b;	if 					(5 * 		 ***a)
	{
		b = 		 	12;
		b
			&& b;
	}
}

int	main(void) {
	int	***	*	a;
	int			b;	if 					(5 * 		 ***a)
	{
		b = 		 	12;
		b
			***b;
	}
}

int	main(void) {
	int	***	*	a;
	int			b;	if 					(5 * 		 ***a) {
		b = 		 	12;
	}
}

int	main(void) {
	int	***	*	a;
	int			b;	if 					(5 * 		 ***	a)
		b = 		 	12;
}
