/* ************************************************************************** */
/*                                                                            */
/*                                                        :::      ::::::::   */
/*   ko_bad_spacing.c                                   :+:      :+:    :+:   */
/*                                                    +:+ +:+         +:+     */
/*   By: pemora <marvin@42.fr>                      +#+  +:+       +#+        */
/*                                                +#+#+#+#+#+   +#+           */
/*   Created: 2049/40/47 22:09:37 by pemora            #+#    #+#             */
/*   Updated: 2019/11/07 14:22:15 by pemora           ###   ########.fr       */
/*                                                                            */
/* ************************************************************************** */

void	this_is_not_correct( void);
void	neither_is_this(void );
void	dont_get_me_started_on_this_one(int       a,char b);
 void	space_after_new_line(void);

void	dumb_function(void)
{
	int a;

	a = 4+ 2; // no space between identifier & operator
	a = 4 +2; // no space between identifier & operator
	a = 4   + 2; // too much spaces between identifier & operator
	a = 4 +   2; // too much spaces between identifier & operator
	a = 4      +     2; // this should appear twice
	a = 4+2; // this should appear twice too
	this_is_not_correct( ); //space between empty parenthesis
	 neither_is_this(); // Space after tabulation
	dont_get_me_started_on_this_one(       4, 25);
	dont_get_me_started_on_this_one("salut les copains", 25        );
	return; //no space after return
}

