#include <main.c>
#define KO_INcLUDE_C
#include <main.c>
