int	g_toto = 0;

	// toototo
	/*
	 ** aallo
	 **
	 */

int	main(void)
{
	int			b;
	static int	i = 0;

	while (i < 0)
	{
		return (val);
	}
	arr = (char **)malloc(sizeof(char *)
			* (ft_lstsize(lst) + 1));
	a = b + c;
	else if (toto
		&& tata || (yoyo
			|| tutu)
		&& tata)
		if (che)
			return (void);
}

int	toto2(void)
{
	else if (toto && tata || toutou
		|| toto)
	{
		a = a
			+ (
				(
					(
						a
						+ b
						)
					)
				+ c
				);
		return ;
	}
	else if (woa)
	{
		print ((a + 'wolabrute') + b);
	}
}
