#endif
#else
#endif
#else
#endif
#endif
#endif
#else
#else
#endif
// Ok
#if 1
#endif
// END Ok
#else
#endif
