#include <wchar.h>
char c1 = 'c';
char c2 = '\t';
char c3 = '\\';
char c4 = '\'';
char c5 = '"';
char c6 = '\"';
char *s1 = "hello world";
char *s2 = "hello 'world'";
char *s3 = "hello \"world\"";
char *s4 = "hello \"world\"\\";
wchar_t *s5 = L"hello \"world\"\\";
wchar_t *s6 = L"hello \"world\"\\\\\\\\\\\\\\\\\\\\\\\\\\\\\\\\\\\\\\\\\\\\\\";
wchar_t *s7 = L "hello world";
