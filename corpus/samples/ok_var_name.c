int	main(void)
{
	int	a;
	int	b;
	int	c_d_e;
	int	c_d_e2;
	int	f4;
}

int	main(void)
{
	int	a;
	int	b;
	int	c_d_e;
	int	c_d_e2;
	int	f4;
}

int	main(void)
{
	int	a;
	int	b;
	int	c_d_e;
	int	c_d_e2;
	int	f4;
}

int	main(void)
{
	int	a;
	int	b;
	int	c_d_e;
	int	c_d_e2;
	int	f4;
}

int	main(void)
{
	int	a;
	int	b;
	int	c_d_e;
	int	c_d_e2;
	int	f4;
}
