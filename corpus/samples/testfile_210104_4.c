int	((*g_conv[13])(t_syntax syntax, t_buffer *buffer, va_list va));

void	main(void)
{
	2 +*y;
}

void	main(void)
{
	2 + *y;
}
