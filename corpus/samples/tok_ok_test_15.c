typedef void (*function_pointer_t)(int);
typedef void function_t(int);

function_t my_func;

void bar() {
	my_func(42);
}
