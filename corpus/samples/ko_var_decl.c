void	tata(const char xc);
void	tata(const t_struct *a);
void	tata(const char w);

int	main(int toto, int c, int v)
{
	if (i --)
		while (1)
		{
			return ;
		}
	else
		return ;
}

void	toto(void)
{
	return ;
}
