int	main(void)
{
	int	i;
	int	*j;
	int	k;

	k = 0;
	j = &k;
	i = -!j;
	i = -!*j;
	i = -!!j;
	i = ~*j;
	i = ~!j;
	i = ~!j;
	i = -~k;
	i = !-k;
	i = !+k;
	i = !~k;
	i = ~!~k;
	i = ~~~~~~~~k;
}
