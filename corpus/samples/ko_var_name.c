int notValid;
int NotValidEither;
