static void	test(int (*f)(void *z), int a, int b, int c, int d, int e)
{
	return ;
}
