#define TTOO 1

int	g_toto = 0;

int	main(void)
{
	int					tab[1];
	void				l;
	int					i;
	static t_struct		t = 0;

	if (i++)
	{
		return ;
	}
}
