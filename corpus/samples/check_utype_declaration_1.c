struct
{
	int	a;
};

void	main(void)
{
	struct
	{
		int	b;
	};
}

// https://github.com/42School/norminette/issues/437
enum e_endian
{
	LITTLE,
	BIG
};

enum e_endian	which_endian(void)
{
	union
	{
		unsigned char	var2[2];
		unsigned short	var1;
	}	u_endian;// This should be the correct indentation
//	}					u_endian; 
	u_endian.var1 = 1;
	if (u_endian.var1 == u_endian.var2[0])
		return (LITTLE);
	else
		return (BIG);
}
