#ifndef OK_CONST_PTR_2_H
# define OK_CONST_PTR_2_H

int	execute_cmds(int const *const *cmds, char *envp[]);
int	execute_cmds(t_cmd const *const *cmds, char *envp[]);

int	func(int const *var);
int	func(const int *var);
int	func(int *const *const *const *const var);
int	func(int **const var);
int	func(int const *const **const var);

int	func(t_obj const *var);
int	func(const t_obj *var);
int	func(t_obj *const *const *const *const var);
int	func(t_obj **const var);
int	func(t_obj const *const **const var);

#endif
