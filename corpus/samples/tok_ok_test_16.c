typedef int array_t[10];
typedef array_t* array_ptr_t;

void foo(array_ptr_t array_ptr) {
	int x = (*array_ptr)[1];
}

void bar() {
	int arr_10[10];
	foo(&arr_10);

	int arr_11[11];
	foo(&arr_11);
}
