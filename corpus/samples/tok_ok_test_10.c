struct foo {
	struct bar {
		int x;
	} baz;
};

void frob() {
	struct bar b;
}
