#define STUFF 1
#ifndef FOO
# define FOO
# ifndef BAR
#  define BAR
# endif
#endif
