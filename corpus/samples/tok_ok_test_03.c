void                       *foo(void);
char*				bar()     ;


typedef int t_typedef;


int   
main(void) { t_typedef a, b = 0;
printf("Zis function iz uzeless!");
return (a + b) * b + 1;
}

