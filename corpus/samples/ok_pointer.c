result = result * 10 + *(*str)++ - '0';
func(i * a, *b, (&c));

int	main(void *toto)
{
	return ;
}
