const int	*get_draw_info(t_draw *draw, double perpwalldist,
				t_texture texture[4], t_mov mov);

int	main(void)
{
	fct(aaa, a,
		b);
}
