# define STUFF 1
#ifndef FOO
#define FOO 2
# endif
#   define BAR 3
