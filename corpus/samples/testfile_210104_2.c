int	main(void)
{
	int	a;

	// issue 13, 16, 17
	a = 1;
	return (~a);
}

int	main(void)
{
	const int	len;

	len = ft_len(n);
	a = 1;
}

typedef char	t_my_type;

int	main(int argc, char **argv)
{
	size_t	size;

	return (0);
}
