#define X 1

#ifndef check_preprocessor_protection_h
# define CHECK_PREPROCESSOR_PROTECTION_H
#
#endif

#define Y 2

#ifndef check_preprocessor_protection_h
# define CHECK_PREPROCESSOR_PROTECTION_H
#endif

#ifndef check_preprocessor_protection_h
# define CHECK_PREPROCESSOR_PROTECTION_H
#endif
