static t_crd	get_first_basis(t_crd *normal)
{
	(pvec_module(normal) * pvec_module(&basis_vec));
}

int	v(int *restrict t)
{
	const char	*restrict s = "Hello World";

	printf("%s\n", s);
	return (0);
}

int error_std(
	t_shell_context *context,
	int return_code,
	...
)
{
	return ;
}