struct	s_pftag
{
	const char		*src;
	t_buffer		*buffer;
	int				(*printer)(t_buffer *buffer, char c);
	char			type;
};

int ft_printf(const char *format, ...) __attribute__((format(printf, 1, 2)));

struct	s_pftag
{
	t_buffer		*buffer;
};