extern void foo;
