t_montype	g_globale;
t_montype	g_glob;