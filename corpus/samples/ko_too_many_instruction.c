int	g_a; int	g_b;

void	f(void)
{
	write(1, "a", 1); write(1, "a", 1);
}
