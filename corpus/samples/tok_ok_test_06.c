void foo()
{
float a = 4.2;
a = 4.2e4;
a = 4.2e-4;
a = 10.12e3f;
a = 4.2f;
a = .2f;
a = 10.f;
a = 10.e12f;
a = .4;
a = .4e3-1;
a = 0.-+12;
}
