#ifndef TEST_FILE_0907_2_H
# define TEST_FILE_0907_2_H

# include "structs/structs.h"
# include "settings.h"
# include "frontend.h"

# define T_BUFF_SIZE		8
# define S_BUFF_SIZE		1

# ifdef OS_UBUNTU

#  warning "UBUNTU"
#  ifndef QWERTY
#   define FORWARD_KEY		122
#   define BACKWARD_KEY		115
#   define LEFT_KEY			113
#   define RIGHT_KEY			100
#   define CTRL_KEY			65507
#   define ALT_KEY			65513
#   define C_KEY				99
#  endif

#  ifdef QWERTY
#   define FORWARD_KEY		119
#   define BACKWARD_KEY		115
#   define LEFT_KEY			97
#   define RIGHT_KEY		100
#   define CTRL_KEY			65507
#   define ALT_KEY			65506
#   define C_KEY			99
#  endif

# endif

# ifdef OS_OSX

#  warning "OSX"
#  define FORWARD_KEY		13
#  define BACKWARD_KEY		1
#  define LEFT_KEY			0
#  define RIGHT_KEY			2
#  define CTRL_KEY			256
#  define ALT_KEY			258
#  define C_KEY				8

# endif

/*
** BACKEND
*/

t_keys	*key_chr(t_keys *arr, int keycode, size_t size);

/*
** EVENT HANDLERS
*/

int		keyboard_handler(t_vars *vars);
void	hooks(t_vars *vars);
int		loop_handler(t_vars *vars);
int		key_handler(int keycode, t_vars *vars);
int		mouse_handler(int button, int x, int y, t_vars *vars);
int		move_handler(void);
int		resize_handler(void);
int		enter_handler(void);
int		leave_handler(void);
int		release_handler(int keycode, t_vars *vars);

/*
** EVENT DEFINITION
*/

# define NOEVENT_MASK			    0L
# define KEYPRESS_MASK			    1L
# define KEYRELEASE_MASK			2L
# define BUTTONPRESS_MASK			4L
# define BUTTONRELEASE_MASK		    8L
# define ENTERWINDOW_MASK			16L
# define LEAVEWINDOW_MASK			32L
# define POINTERMOTION_MASK		    64L
# define POINTERMOTIONHINT_MASK	    128L

/*
** # define Button1MotionMask		(1L<<8)
** # define Button2MotionMask		(1L<<9)
** # define Button3MotionMask		(1L<<10)
** # define Button4MotionMask		(1L<<11)
** # define Button5MotionMask		(1L<<12)
** # define ButtonMotionMask		(1L<<13)
** # define KeymapStateMask			(1L<<14)
** # define ExposureMask			(1L<<15)
** # define VisibilityChangeMask	(1L<<16)
** # define StructureNotifyMask		(1L<<17)
** # define ResizeRedirectMask		(1L<<18)
** # define SubstructureNotifyMask	(1L<<19)
** # define SubstructureRedirectMask	(1L<<20)
** # define FocusChangeMask			(1L<<21)
** # define PropertyChangeMask		(1L<<22)
** # define ColormapChangeMask		(1L<<23)
** # define OwnerGrabButtonMask		(1L<<24)
*/

# define KEY_PRESS		    2
# define KEY_RELEASE		3
# define BUTTON_PRESS		4
# define BUTTON_RELEASE	    5

/*
** # define MotionNotify	    6
** # define EnterNotify		    7
** # define LeaveNotify		    8
** # define FocusIn			    9
** # define FocusOut		    10
** # define KeymapNotify	    11
** # define Expose			    12
** # define GraphicsExpose	    13
** # define NoExpose		    14
** # define VisibilityNotify    15
** # define CreateNotify		16
** # define DestroyNotify		17
** # define UnmapNotify		    18
** # define MapNotify		    19
** # define MapRequest		    20
** # define ReparentNotify		21
** # define ConfigureNotify		22
** # define ConfigureRequest	23
** # define GravityNotify		24
** # define ResizeRequest		25
** # define CirculateNotify		26
** # define CirculateRequest	27
** # define PropertyNotify		28
** # define SelectionClear		29
** # define SelectionRequest	30
** # define SelectionNotify		31
** # define ColormapNotify		32
** # define ClientMessage		33
** # define MappingNotify		34
** # define GenericEvent		35
** # define LASTEvent		    36
*/

#endif
