#if defined FOO
# undef FOO
#elif defined (BAR)
# undef BAR
#elif defined(FOOBAR)
# undef FOOBAR
#endif /* if defined FOO */

#define A defined B

void	defined(void);
