#  define HOJEEHDIA 1
#ifdef HOJEEHDIA
#define BADIDENT 2
#if 1
# error "Ta errado essa indentação aqui hein"
#   endif
#		endif

# define bad 1
// #define toto f(x)
// #define A AB+AB

#define PRINTF printf // ALIAS

#define X 2 /*
o X é 2, logo 2 não é X
*/

#define NEVER 2
#if 1
# if 1
#  if 1
#  endif
# endif
#elif HOJEEHDIA
# 			    	 	 		
#endif

				#define J 2
	#define NATHAN "lINDO"
	#define PANSUDINHO
  #define barrigudinho				PANSUDINHO

#include<stdio.h>
#include	<stdlib.h>
#include  "stdio.h"
#include  	 "stdlib.h"
#include 	"stdio.h"
#include"stdlib.h"
#include "sys/type.h"
#include <sys/type.h>
#include <   sys_ali   /  aqui _123_2    .h>

#include <stdint.h>  // uint32_t
#include <stdlib.h>  /* malloc */ 		
#include <stdio.h>   /*
printf
*/ // é o negócio n ta legal não

#import	<stdio.h>
#import <stdio.h>  // pipoca é bem gostoso

{
// We are in GlobalScope here, right?
#define OK

}

int	main(void)
{
#ifdef ONLY_GLOBAL_SCOPE
	return (1);
#else
	return (0);
#endif
}

#define X
#if 'A' == 'A'
#endif
#if 'A' == 65
#endif
#if 'A'
#endif