int	main(void)
{
	nbr = (int)ft_ternary(sign, n, va);
	size = ft_size(nb, val);
}
