enum	e_bitmask_enum
{
	first_enum_with_value_zero = 0,
	second_enum,
	third_enum,
	fourth_enum_with_value_based_on_other_enums = (first_enum_with_value_zero |
	second_enum | third_enum)
};

fourth_enum_with_value_based_on_other_enums = (first_enum_with_value_zero
		| second_enum | third_enum);
