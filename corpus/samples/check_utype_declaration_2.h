struct
{
	int	a;
};

struct
{
	struct
	{
		int	b;
	}	s_a;
};
