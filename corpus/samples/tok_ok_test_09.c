switch (n)
{
	case 1: 
		printf("Zis function iz uzeless!");
        break;
	case 2: 
		printf("Zis function iz uzeless!");
		break;
	default: 
		printf("Zis function iz uzeless!");
}
