typedef struct s_toto
{
	int	a;
}		t_toto;
struct s_tata
{
	int	a;
	int	b;
};

union u_val			g_var;
struct s_toto		g_var;

int	main(void)
{
	struct s_type				val;
	int							a;
}
