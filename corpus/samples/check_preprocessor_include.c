#include "ok.h"
#include "error.c"
#include "error"


void	main(void);

#include "not in start.h"

#if 1
# include "ok but not ok.h"
#endif

#include <float.h>
#include <int.h>
#include <char.h>
#include <wchar.h>
#include <if.h>
#include <else.h>
#include <bool.h>
#include <null.h>
#include <NULL.h>
