enum e_random_enum
{
	first_enum = 0,
	second_enum,
	third_enum,
	fourth_enum = 42
};