const char	*(*func)(void);

int	render_map(void *param)
{
	g->spritedist[i] = ((g->posx - sprite.x) * (g->posx - sprite.x) + 1);
}
