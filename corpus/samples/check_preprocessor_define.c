#define lower_case_macro 1
#define UPPER_CASE_MACRO 2
#define PascalCaseMacro 3

#define         EXTRA_SPACING 0
#define		IlikeTabs 1
#define 	 	   	WEIRD_SPACING 2


#define HOJEEHDIA										\
	1 /* wat */

#define HOJEEHDIA2  	     		 "5 do 7 de 2023"

#define PERGUNTAMO

#define NUNTI PERGUNTAMO // NADA

#define NON_CONSTANT 1 + 2
#define AHN 1 1 1 1 1 1 1 1 1 1 1

#define BLA (1)

#define BLO + 2)

#define NO_SYMBOLS ?
#define NO_SYMBOLS2 &&

#define ABS(x) ((x) < 0 ? -(x) : (x))
#define NOT(o)			!o

#define OK

#define B 'A'
#define B 'a'