struct book {
    int pages;
    float price;
    char *bname;
};
