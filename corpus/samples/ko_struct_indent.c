typedef struct s_toto	t_toto;
union u_toto				var;
int							g_int, _var;

typedef struct s_toto {
	struct s_toto	plait;
	union u_toto			yo;
	typedef union u_test		t_test;
	enum e_toto				abc;
}	t_struct;

int	main(void)
{
	return (0);
}
