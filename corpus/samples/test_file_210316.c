int	main(void)
{
	if (((unsigned char*)s1)[curr] != ((unsigned char*)s2)[curr])
		return (((unsigned char*)s1)[curr] - ((unsigned char*)s2)[curr]);
}

struct my_struct			g_struct = {
	.field = (void *)&value
};

int	main(void)
{
	t_quaternion	g_quat = {
		.r = 1,
		.i = 0,
		.j = 0,
		.k = 0
	};
}
t_quaternion				g_quat = {
	.r = 1,
	.i = 0,
	.j = 0,
	.k = 0
};
*result = (t_quaternion)
{
	.r = 1,
	.i = 0,
	.j = 0,
	.k = 0
};

static const t_quaternion	g_quat = {.r = 1, .i = 0, .j = 0, .k = 0};
static const t_quaternion	g_quat = {r : 1, i : 0, j: 0, k : 0 };
static const t_quaternion	g_quats[4] = {[0].r = 3, [1].i = 5 };
*result = (t_quaternion){1, 0, 0, 0};
*result = (t_quaternion){r : 1, i : 0, j : 0, k : 0 };