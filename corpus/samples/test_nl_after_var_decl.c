void	test(void)
{
	int	x;
	{
		printf("Ok?");
	}
}

void	test2(void)
{
	int	x;
	{{ printf(1); }}
}

void	test3(void)
{
	int	y;
	(printf(1));
}

void	test4(void)
{
	int	y;
	if (1)
	{
		printf(1);
	}
}

void	test5(void)
{
	int	x, y, z;
	{
		printf("Not ok");
	}
}

void	test6(void)
{
	int	x;
	{
		while (1)
return ;
	}
}

void	test7(void)
{
	int	x;
	{{return ;}}
}

void	test8(void)
{
	int	x;
	{if (1)
	 	return ;}
}
