typedef struct __attribute__((__packed__)) s_bmpfileheader
{
	int	test;
}	t_bmpfileheader;

typedef struct s_bmpfileheader
{
	uint8_t		signature[2];
	uint32_t	filesize;
	uint32_t	reserved;
	uint32_t	fileoffset_to_pixelarray;
} __attribute__((__packed__))	t_bmpfileheader;

typedef struct __attribute__((__packed__)) s_bmpfileheader
{
	uint8_t		signature[2];
	uint32_t	filesize;
	uint32_t	reserved;
	uint32_t	fileoffset_to_pixelarray;
} __attribute__((__packed__))	t_bmpfileheader;

int	main(void)
{
	if (s[(s[0] == '-')] == '\0'
		|| (s[(s[0] == '-')] == '0' && ft_strlen(s) > 1)
		|| (ft_strlen(s) > 10 + (s[0] == '-'))
		|| (ft_strlen(s + (s[0] == '-')) == 10
			&& (sign == 1 && ft_strcmp(s, "2147483647") > 0)
			|| (sign == -1 && ft_strcmp(s + 1, "2147483648") > 0)))
		return (1);
}
