int	main(int i/*comment in function parameters*/
		, int x)// comment after function declaration
{
	int	num1;
	int	num2;/* comment in function body not at end of line */// comment in fun
	/*
		Multi line comment in function body

	*/
	num1 = 25;
	num2 = 0;
	while (num2 != 25 && num2 != 25/* comment in while */
		&& num1 < 60)
	{
		num2 += 2;
		num1++;
	}
	return (0); // single line comment
}
